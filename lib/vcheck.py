"""Driver for ./check.  See /verif/DESIGN.md sections 3.3, 10."""
import glob
import json
import os
import re
import shutil
import subprocess
import sys
import tempfile
import time
from concurrent.futures import ThreadPoolExecutor

ROOT = os.path.dirname(os.path.dirname(os.path.abspath(__file__)))
REPO = os.environ.get("VERIF_REPO", "/repo")
SPEC = os.path.join(ROOT, "spec")
HARNESS = os.path.join(ROOT, "harness")
OUT = os.path.join(ROOT, "out")
EVID = os.path.join(ROOT, "evidence")
if REPO != "/repo":
    # development aid (trying a seeded change on a scratch copy): nothing it produces may be mistaken for evidence
    OUT = os.path.join(ROOT, "out", "alt-" + os.path.basename(REPO.rstrip("/")))
    EVID = os.path.join(OUT, "evidence")
JAVA_CP = "/opt/veriftools/tla/tla2tools.jar:/opt/veriftools/tla/CommunityModules-deps.jar"
NCPU = os.cpu_count() or 4

GOENV = dict(os.environ, GOFLAGS="-mod=mod", GOPROXY="off", GOSUMDB="off", GOTOOLCHAIN="local")


def log(*a):
    print(*a, flush=True)


# --------------------------------------------------------------------------- building

def build_harness(pkgs=("sim",)):
    """Rebuild the harness test binaries against /repo's current working tree with hooks on."""
    os.makedirs(os.path.join(OUT, "bin"), exist_ok=True)
    # go.sum of the library is the source of truth for module hashes
    try:
        shutil.copyfile(os.path.join(REPO, "go.sum"), os.path.join(HARNESS, "go.sum"))
    except OSError:
        pass
    bins = {}
    modfile = []
    if REPO != "/repo":
        # development aid (seeded changes are tried on a scratch copy of the repository, never in /repo): an alternative
        # go.mod whose replace directive points at VERIF_REPO. Registered checks always build from /repo.
        alt = os.path.join(OUT, "bin", "go.alt.mod")
        with open(os.path.join(HARNESS, "go.mod")) as f:
            txt = f.read().replace("=> /repo", "=> " + REPO)
        with open(alt, "w") as f:
            f.write(txt)
        shutil.copyfile(os.path.join(HARNESS, "go.sum"), os.path.join(OUT, "bin", "go.alt.sum"))
        modfile = ["-modfile=" + alt]
    for p in pkgs:
        b = os.path.join(OUT, "bin", p + ".test")
        cmd = ["go1.26.8", "test"] + modfile + ["-tags", "verif", "-c", "-o", b, "./" + p]
        r = subprocess.run(cmd, cwd=HARNESS, env=GOENV, capture_output=True, text=True)
        if r.returncode != 0:
            log("BUILD-FAILED", p)
            log(r.stdout[-4000:])
            log(r.stderr[-4000:])
            raise Inconclusive("harness does not build against /repo (" + p + ")")
        bins[p] = b
    return bins


class Inconclusive(Exception):
    pass


# --------------------------------------------------------------------------- simulator families

def run_families(binary, fams, seed, outdir, timeout=1500):
    """fams: list of (family, runs, steps). Runs are spread over worker processes.
    Returns the list of trace files."""
    os.makedirs(outdir, exist_ok=True)
    for f in glob.glob(os.path.join(outdir, "*.ndjson")):
        os.remove(f)
    jobs = []
    for ent in fams:
        fam, runs, steps = ent[0], ent[1], ent[2]
        base = ent[3] if len(ent) > 3 else 0          # first run number (the pool of directed families starts elsewhere per property)
        per = max(1, (runs + NCPU - 1) // NCPU)
        first = 0
        while first < runs:
            n = min(per, runs - first)
            jobs.append((fam, base + first, n, steps))
            first += n

    def one(job):
        fam, first, n, steps = job
        env = dict(GOENV, VERIF_FAMILY=fam, VERIF_SEED=str(seed), VERIF_FIRST=str(first), VERIF_RUNS=str(n),
                   VERIF_STEPS=str(steps), VERIF_OUT=outdir, GOMAXPROCS="2")
        try:
            r = subprocess.run([binary, "-test.run", "^TestFamily$", "-test.count=1", "-test.timeout", "%ds" % timeout],
                               env=env, capture_output=True, text=True, timeout=timeout + 30)
        except subprocess.TimeoutExpired:
            return (job, 124, "timeout")
        out = r.stdout + r.stderr
        if r.returncode != 0:
            k = max(out.find("panic:"), out.find("--- FAIL"), out.find("HANG "), out.find("fatal error:"))
            if k >= 0:
                return (job, r.returncode, out[k:k + 3000])
        return (job, r.returncode, out[-3000:])

    bad = []
    with ThreadPoolExecutor(max_workers=NCPU) as ex:
        for job, rc, out in ex.map(one, jobs):
            if rc != 0:
                bad.append((job, rc, out))
    traces = sorted(glob.glob(os.path.join(outdir, "*.ndjson")))
    return traces, bad


# --------------------------------------------------------------------------- TLC

def run_tlc(module, cfg, workdir, env_extra=None, workers=1, timeout=1800, extra=()):
    """Runs TLC in a scratch copy of the spec directory. Returns (rc, output)."""
    scratch = tempfile.mkdtemp(prefix="verif-tlc-")
    try:
        for f in glob.glob(os.path.join(SPEC, "*.tla")) + glob.glob(os.path.join(SPEC, "*.cfg")) + \
                 glob.glob(os.path.join(SPEC, "mc", "*.tla")) + glob.glob(os.path.join(SPEC, "mc", "*.cfg")):
            shutil.copy(f, scratch)
        env = dict(os.environ)
        if env_extra:
            env.update(env_extra)
        gc = ["-XX:ParallelGCThreads=2", "-XX:CICompilerCount=2"] if workers == 1 else []
        cmd = ["java", "-XX:+UseParallelGC"] + gc + ["-Xss64m", "-Xmx6g", "-cp", JAVA_CP, "tlc2.TLC",
               "-workers", str(workers), "-metadir", os.path.join(scratch, "meta"), "-config", cfg] + list(extra) + [module]
        try:
            r = subprocess.run(cmd, cwd=scratch, env=env, capture_output=True, text=True, timeout=timeout)
            return r.returncode, r.stdout + r.stderr
        except subprocess.TimeoutExpired as e:
            return 124, (e.stdout or "") + "\nTIMEOUT"
    finally:
        shutil.rmtree(scratch, ignore_errors=True)


LINE_RE = re.compile(r'^"(VIOL|NONCONF|TRACE_END|INFO)\|(.*)"$')


def parse_trace_output(out):
    viols, nonconf, ends, infos = [], [], [], []
    for ln in out.splitlines():
        m = LINE_RE.match(ln.strip())
        if not m:
            continue
        kind, rest = m.group(1), m.group(2).replace('\\"', '"')
        parts = rest.split("|")
        if kind == "TRACE_END":
            ends.append(parts)
        elif kind == "INFO":
            infos.append(parts)
        else:
            d = {"prop": parts[0], "pred": parts[1], "trace": int(parts[2]), "line": int(parts[3]), "detail": "|".join(parts[4:])}
            (viols if kind == "VIOL" else nonconf).append(d)
    return viols, nonconf, ends, infos


def validate_traces(traces, workdir, chunks=None, timeout=1800):
    """Concatenates traces into chunk files and has TLC validate each chunk.
    Returns dict(viols, nonconf, lines, traces_ok, states, problems)."""
    os.makedirs(workdir, exist_ok=True)
    if not traces:
        return dict(viols=[], nonconf=[], lines=0, traces_ok=0, states=0, problems=["no traces"], infos=[])
    chunks = chunks or min(NCPU // 2 or 1, len(traces))
    groups = [[] for _ in range(chunks)]
    sizes = [0] * chunks
    for t in sorted(traces, key=lambda p: -os.path.getsize(p)):
        i = sizes.index(min(sizes))
        groups[i].append(t)
        sizes[i] += os.path.getsize(t)
    jobs = []
    for i, g in enumerate(groups):
        if not g:
            continue
        path = os.path.join(workdir, "chunk%02d.ndjson" % i)
        nlines = 0
        starts = []
        with open(path, "w") as w:
            for t in g:
                starts.append(nlines)
                with open(t) as f:
                    for ln in f:
                        w.write(ln)
                        nlines += 1
        jobs.append((path, g, nlines, starts))

    def one(job):
        path, g, nlines, starts = job
        rc, out = run_tlc("HRaftTrace.tla", "HRaftTrace.cfg", workdir, {"VERIF_TRACE": path}, workers=1, timeout=timeout)
        return job, rc, out

    res = dict(viols=[], nonconf=[], lines=0, traces_ok=0, states=0, problems=[], infos=[])
    with ThreadPoolExecutor(max_workers=len(jobs)) as ex:
        for (path, g, nlines, starts), rc, out in ex.map(one, jobs):
            v, n, ends, infos = parse_trace_output(out)
            for d in v + n:
                if 0 < d["trace"] <= len(g):
                    d["file"] = g[d["trace"] - 1]
                    d["line"] -= starts[d["trace"] - 1]
                else:
                    d["file"] = path
            res["viols"] += v
            res["nonconf"] += n
            res["infos"] += infos
            res["lines"] += nlines
            res["traces_ok"] += len(ends)
            m = re.search(r"(\d+) states generated, (\d+) distinct states found", out)
            if m:
                res["states"] += int(m.group(2))
            if rc != 0 or len(ends) != len(g) or "Model checking completed. No error has been found" not in out:
                with open(path + ".tlc.log", "w") as w:
                    w.write(out)
                res["problems"].append("TLC did not consume %s completely (rc=%d, %d/%d traces); log %s.tlc.log" % (path, rc, len(ends), len(g), path))
    return res


def model_check(module, cfg, workers=None, timeout=1800, extra=()):
    workers = workers or NCPU
    t0 = time.time()
    rc, out = run_tlc(module, cfg, None, workers=workers, timeout=timeout, extra=extra)
    d = dict(module=module, cfg=cfg, rc=rc, wall_s=round(time.time() - t0, 1), states=0, distinct=0, ok=False, violated=None, depth=0)
    m = re.search(r"(\d+) states generated, (\d+) distinct states found", out)
    if m:
        d["states"], d["distinct"] = int(m.group(1)), int(m.group(2))
    m = re.search(r"depth of the complete state graph search is (\d+)", out)
    if m:
        d["depth"] = int(m.group(1))
    if "Model checking completed. No error has been found" in out:
        d["ok"] = True
    else:
        m = re.search(r"Invariant (\S+) is violated", out) or re.search(r"Action property (\S+) is violated", out) or \
            re.search(r"Temporal properties were violated", out)
        d["violated"] = m.group(0) if m else ("timeout" if rc == 124 else "error")
        d["tail"] = out[-6000:]
    return d


# --------------------------------------------------------------------------- known findings

def load_known():
    p = os.path.join(ROOT, "known_findings.json")
    if not os.path.exists(p):
        return []
    with open(p) as f:
        return json.load(f).get("findings", [])


def _sig_match(sig, v, ctx):
    if sig.get("pred") and sig["pred"] != v["pred"]:
        return False
    if sig.get("detail_regex") and not re.search(sig["detail_regex"], v["detail"]):
        return False
    if sig.get("family_regex") and not re.search(sig["family_regex"], os.path.basename(v.get("file", ""))):
        return False
    if sig.get("after_pred"):
        # the violation lies in a trace in which the named predicate was false at an earlier (or the same) line:
        # the specific history that identifies the finding
        first = (ctx or {}).get((v.get("file"), sig["after_pred"]))
        if first is None or v.get("line", 0) < first:
            return False
    return True


def known_context(viols):
    """(file, predicate) -> first line at which that predicate is false in that trace."""
    ctx = {}
    for v in viols:
        k = (v.get("file"), v["pred"])
        if k not in ctx or v.get("line", 0) < ctx[k]:
            ctx[k] = v.get("line", 0)
    return ctx


def match_known(v, known, ctx=None):
    for k in known:
        if k.get("status") != "open":
            continue
        if k["property"] != v["prop"]:
            continue
        sig = k.get("signature", {})
        alts = sig.get("any_of") or [sig]
        if any(_sig_match(s, v, ctx) for s in alts):
            return k
    return None


# --------------------------------------------------------------------------- evidence

def write_evidence(pid, tier, seed, level, coverage, wall, violations, assumptions):
    os.makedirs(EVID, exist_ok=True)
    ev = {"property_id": pid, "tier": tier, "seed": seed, "level": level, "coverage": coverage,
          "assumptions": assumptions, "wall_s": round(wall, 1), "violations": violations}
    with open(os.path.join(EVID, pid + ".json"), "w") as f:
        json.dump(ev, f, indent=1)


def sample_lines(path, k=6, want=("handle", "role", "fsm", "return", "crash", "snap")):
    out = []
    try:
        with open(path) as f:
            for ln in f:
                d = json.loads(ln)
                if d.get("ev") in want:
                    d.pop("st", None)
                    out.append(d)
                    if len(out) >= k:
                        break
    except OSError:
        pass
    return out


# --------------------------------------------------------------------------- main

def main(argv):
    import vprops
    if len(argv) >= 2 and argv[0] == "replay":
        return vprops.replay(argv[1])
    if len(argv) >= 2 and argv[0] == "dev":
        return vprops.dev(argv[1], int(argv[2]) if len(argv) > 2 else 16, int(argv[3]) if len(argv) > 3 else 400)
    if len(argv) < 2 or argv[1] not in ("quick", "thorough"):
        log(__doc__)
        log("usage: ./check <Cxx> <quick|thorough> | ./check replay <path>")
        return 2
    pid, tier = argv[0], argv[1]
    seed = int(os.environ.get("VERIF_SEED", "1"))
    try:
        return vprops.run(pid, tier, seed)
    except Inconclusive as e:
        log("INCONCLUSIVE property=%s %s" % (pid, e))
        return 2
