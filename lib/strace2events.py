#!/usr/bin/env python3
"""Maps an `strace -f` log of TestFileSnapSyscalls to one JSON row per snapshot operation:
{"op": "close"|"cancel", "events": [[kind, file], ...]} with kind in write/fsync/rename/dirsync/unlink and file in
state/meta/dir/parent. File descriptors are resolved through the openat results (per process)."""
import json, re, sys

def main(path, out):
    fd = {}          # fd -> path
    rows = []
    cur = None
    pend = {}        # pid -> unfinished line
    for ln in open(path, errors="replace"):
        m = re.match(r"^(\d+)\s+(.*)$", ln.rstrip("\n"))
        if not m:
            continue
        pid, rest = m.group(1), m.group(2)
        if rest.endswith("<unfinished ...>"):
            pend[pid] = rest[:-len("<unfinished ...>")].rstrip()
            continue
        mr = re.match(r"^<\.\.\. (\w+) resumed>(.*)$", rest)
        if mr:
            rest = pend.pop(pid, mr.group(1) + "(") + mr.group(2)
        m = re.match(r'^(\w+)\((.*)\)\s+=\s+(-?\d+)', rest)
        if not m:
            continue
        call, args, ret = m.group(1), m.group(2), int(m.group(3))
        if call in ("newfstatat", "stat", "statx", "fstatat64") and "/verif-marker/" in args:
            name = re.search(r'/verif-marker/(\w+)', args).group(1)
            if name == "create":
                cur = {"op": "?", "events": []}
            elif name in ("close", "cancel") and cur is not None:
                cur["op"] = name
                cur["events"].append(["call", name])
            elif name == "returned" and cur is not None:
                cur["events"].append(["return", cur["op"]])
                rows.append(cur)
                cur = None
            continue
        if call == "openat" and ret >= 0:
            p = re.search(r'"([^"]*)"', args)
            if p:
                fd[ret] = p.group(1)
            continue
        if call == "close":
            continue
        if cur is None:
            continue
        def kind_of(p):
            if p.endswith("state.bin"):
                return "state"
            if p.endswith("meta.json"):
                return "meta"
            if p.endswith(".tmp") or re.search(r"/\d+-\d+-\d+$", p):
                return "dir"
            if p.endswith("/snapshots") or p.endswith("/snapshots/"):
                return "parent"
            return "other"
        if call in ("write", "pwrite64") and ret > 0:
            f = int(args.split(",")[0])
            k = kind_of(fd.get(f, ""))
            if k in ("state", "meta"):
                if not cur["events"] or cur["events"][-1] != ["write", k]:
                    cur["events"].append(["write", k])
        elif call in ("fsync", "fdatasync") and ret == 0:
            f = int(args.split(",")[0])
            k = kind_of(fd.get(f, ""))
            if k in ("state", "meta", "parent", "dir"):
                cur["events"].append(["fsync", k])
        elif call in ("rename", "renameat", "renameat2") and ret == 0:
            ps = re.findall(r'"([^"]*)"', args)
            if len(ps) >= 2 and ps[0].endswith(".tmp"):
                cur["events"].append(["rename", "dir"])
        elif call in ("unlinkat", "unlink", "rmdir") and ret == 0:
            p = re.search(r'"([^"]*)"', args)
            if p:
                k = kind_of(p.group(1))
                if not cur["events"] or cur["events"][-1] != ["unlink", k]:
                    cur["events"].append(["unlink", k])
    with open(out, "w") as w:
        for r in rows:
            w.write(json.dumps(r) + "\n")
    print("STRACE rows=%d" % len(rows))

if __name__ == "__main__":
    main(sys.argv[1], sys.argv[2])
