"""Per-property plans: which bounded models, simulator families and generated-case suites decide each property."""
import json
import os
import time

import vcheck
from vcheck import log

# (family, runs, steps)
PLANS = {
    "C01": dict(
        families=dict(quick=[("chaos", 24, 500), ("elect", 24, 400)], thorough=[("chaos", 160, 800), ("elect", 160, 600)]),
        models=dict(quick=[], thorough=[]),
    ),
    "C02": dict(
        families=dict(quick=[("chaos", 24, 500), ("snap", 24, 500)], thorough=[("chaos", 160, 800), ("snap", 160, 800)]),
        models=dict(quick=[], thorough=[]),
    ),
    "C03": dict(
        families=dict(quick=[("chaos", 32, 500)], thorough=[("chaos", 240, 800)]),
        models=dict(quick=[], thorough=[]),
    ),
    "C04": dict(
        families=dict(quick=[("chaos", 32, 500)], thorough=[("chaos", 240, 800)]),
        models=dict(quick=[], thorough=[]),
    ),
    "C05": dict(
        families=dict(quick=[("chaos", 32, 500)], thorough=[("chaos", 240, 800)]),
        models=dict(quick=[], thorough=[]),
    ),
    "C06": dict(
        families=dict(quick=[("elect", 32, 400)], thorough=[("elect", 240, 600)]),
        models=dict(quick=[], thorough=[]),
    ),
}

ASSUMPTIONS = [
    "collaborators (Transport, LogStore, StableStore, SnapshotStore, FSM) are the harness's simulated ones; real disks/kernels/networks are outside",
    "schedules are explored at the granularity of gated interface calls inside a testing/synctest bubble (virtual time)",
    "exhaustive model results hold for the stated small constants only",
]


def run(pid, tier, seed):
    if pid not in PLANS:
        log("property %s is not claimed by a check" % pid)
        return 2
    plan = PLANS[pid]
    t0 = time.time()
    outdir = os.path.join(vcheck.OUT, pid, tier)
    os.makedirs(outdir, exist_ok=True)
    bins = vcheck.build_harness(("sim",))
    problems = []
    # 1. bounded models (design level)
    models = []
    for (module, cfg, tmo) in plan["models"][tier]:
        m = vcheck.model_check(module, cfg, timeout=tmo)
        models.append(m)
        log("MODEL %s %s: %s states=%d distinct=%d depth=%d %.0fs" % (module, cfg, "ok" if m["ok"] else m["violated"], m["states"], m["distinct"], m["depth"], m["wall_s"]))
        if not m["ok"]:
            problems.append("model %s/%s: %s" % (module, cfg, m["violated"]))
    # 2. real code under the simulator
    traces, bad = vcheck.run_families(bins["sim"], plan["families"][tier], seed, os.path.join(outdir, "traces"))
    for job, rc, out in bad:
        problems.append("simulator job %s exited %d: %s" % (job, rc, out[-400:].replace("\n", " | ")))
    log("SIM %d traces from %s (seed %d)" % (len(traces), [f[0] for f in plan["families"][tier]], seed))
    # 3. TLC judges every trace
    res = vcheck.validate_traces(traces, os.path.join(outdir, "tlc"))
    problems += res["problems"]
    log("TLC validated %d/%d traces, %d lines, %d nonconformance notes" % (res["traces_ok"], len(traces), res["lines"], len(res["nonconf"])))
    known = vcheck.load_known()
    mine = [v for v in res["viols"] if v["prop"] == pid]
    others = [v for v in res["viols"] if v["prop"] != pid]
    new, seen_known = [], {}
    for v in mine:
        k = vcheck.match_known(v, known)
        if k:
            seen_known.setdefault(k["id"], (k, v))
        else:
            new.append(v)
    for kid, (k, v) in sorted(seen_known.items()):
        log("KNOWN-FINDING: property=%s %s [%s] e.g. %s line %d" % (pid, k["what"], kid, os.path.relpath(v["file"], vcheck.ROOT), v["line"]))
    for v in others[:10]:
        log("NOTE other-property predicate %s/%s false at %s line %d (judged by that property's own check)" % (v["prop"], v["pred"], os.path.basename(v["file"]), v["line"]))
    nc_kinds = {}
    for n in res["nonconf"]:
        nc_kinds[n["prop"] + "/" + n["detail"][:60]] = nc_kinds.get(n["prop"] + "/" + n["detail"][:60], 0) + 1
    for n in res["nonconf"][:5]:
        log("NONCONFORMANCE action=%s %s at %s line %d (informational)" % (n["prop"], n["detail"][:160], os.path.basename(n["file"]), n["line"]))
    # 4. evidence
    states = res["states"] + sum(m["distinct"] for m in models)
    transitions = res["lines"] + sum(m["states"] for m in models)
    samples = vcheck.sample_lines(traces[0]) if traces else []
    cov = {
        "states": max(states, 1), "transitions": max(transitions, 1),
        "traces_validated_against_impl": res["traces_ok"],
        "samples": samples or [{"note": "no trace produced"}],
        "models": [{k: m[k] for k in ("module", "cfg", "ok", "states", "distinct", "depth", "wall_s")} for m in models],
        "families": [{"family": f, "runs": r, "steps": s} for (f, r, s) in plan["families"][tier]],
        "trace_lines": res["lines"], "nonconformance_notes": len(res["nonconf"]), "nonconformance_kinds": len(nc_kinds),
        "known_findings_seen": sorted(seen_known.keys()),
        "problems": problems,
        "exhaustive": False,
    }
    vcheck.write_evidence(pid, tier, seed, "model_checking", cov, time.time() - t0, len(new), ASSUMPTIONS)
    if new:
        v = new[0]
        for x in new[:8]:
            log("  predicate %s/%s false: %s (%s line %d)" % (x["prop"], x["pred"], x["detail"][:200], os.path.basename(x["file"]), x["line"]))
        log("VIOLATION property=%s replay=%s" % (pid, v["file"]))
        return 1
    if problems:
        for p in problems:
            log("PROBLEM " + p)
        return 2
    log("OK property=%s tier=%s seed=%d wall=%.0fs" % (pid, tier, seed, time.time() - t0))
    return 0


def replay(path):
    """Re-validate one recorded trace with TLC (deterministic) and print what is false in it."""
    if not os.path.exists(path):
        log("no such file " + path)
        return 2
    wd = os.path.join(vcheck.OUT, "replay")
    res = vcheck.validate_traces([path], wd, chunks=1)
    for v in res["viols"]:
        log("predicate %s/%s false at line %d: %s" % (v["prop"], v["pred"], v["line"], v["detail"][:300]))
    for p in res["problems"]:
        log("PROBLEM " + p)
    if res["viols"]:
        log("VIOLATION property=%s replay=%s" % (res["viols"][0]["prop"], path))
        return 1
    return 2 if res["problems"] else 0


def dev(fams, runs, steps):
    """Development aid: run families, validate, summarise every predicate that is false."""
    seed = int(os.environ.get("VERIF_SEED", "1"))
    bins = vcheck.build_harness(("sim",))
    outdir = os.path.join(vcheck.OUT, "dev")
    traces, bad = vcheck.run_families(bins["sim"], [(f, runs, steps) for f in fams.split(",")], seed, os.path.join(outdir, "traces"))
    for job, rc, out in bad:
        log("BAD", job, rc, out[-1500:])
    res = vcheck.validate_traces(traces, os.path.join(outdir, "tlc"))
    log("traces %d ok %d lines %d" % (len(traces), res["traces_ok"], res["lines"]))
    summ = {}
    for v in res["viols"]:
        summ.setdefault(("VIOL", v["prop"], v["pred"]), []).append(v)
    for v in res["nonconf"]:
        summ.setdefault(("NONCONF", v["prop"], v["detail"].split("{")[-1][:40]), []).append(v)
    for k, vs in sorted(summ.items()):
        v = vs[0]
        log("%s %s/%s x%d e.g. %s:%d %s" % (k[0], k[1], k[2], len(vs), os.path.basename(v["file"]), v["line"], v["detail"][:140]))
    for p in res["problems"]:
        log("PROBLEM", p)
    return 0
