"""Per-property plans: which bounded models, simulator families and generated-case suites decide each property."""
import json
import os
import re
import sys
import time

import vcheck
from vcheck import log

# (family, runs, steps)
PLANS = {
    "C01": dict(models=dict(quick=[("MC_HRaft.tla", "MC_Election_q.cfg", 300), ("FastPath.tla", "FastPath_design.cfg", 120), ("FastPath.tla", "FastPath_no17.cfg", 120, "LeaderStateInWonTerm"), ("FastPath.tla", "FastPath_no18.cfg", 120, "ActsOnlyInWonTerms")], thorough=[("MC_HRaft.tla", "MC_Election.cfg", 900), ("MC_HRaft.tla", "MC_Crash.cfg", 900), ("FastPath.tla", "FastPath_design6.cfg", 300), ("FastPath.tla", "FastPath_no17.cfg", 120, "LeaderStateInWonTerm"), ("FastPath.tla", "FastPath_no18.cfg", 120, "ActsOnlyInWonTerms"), ("FastPath.tla", "FastPath_fine.cfg", 120, "ActsOnlyInWonTerms")]), families=dict(quick=[("chaos", 24, 500), ("elect", 24, 400), ("voterestart", 8, 0), ("stalerepl", 4, 0), ("fastpathrace", 8, 0), ("stalledleader", 6, 0), ("phases", 10, 0), ("notifyshort", 8, 0)], thorough=[("chaos", 160, 800), ("elect", 200, 600), ("member", 80, 500), ("voterestart", 48, 0), ("stalerepl", 24, 0), ("fastpathrace", 48, 0), ("stalledleader", 32, 0), ("phases", 64, 0), ("notifyshort", 48, 0), ("fastpathterm", 24, 0)])),
    "C02": dict(models=dict(quick=[("MC_HRaft.tla", "MC_Replication_q.cfg", 300)], thorough=[("MC_HRaft.tla", "MC_Replication.cfg", 900), ("MC_HRaft.tla", "MC_Snapshot_q.cfg", 900)]), families=dict(quick=[("chaos", 16, 500), ("snap", 24, 500), ("client", 8, 400), ("restoreinflight", 12, 0), ("dupis", 9, 500), ("snapcfgrace", 16, 0), ("staleprefix", 4, 0), ("restorebacklog", 8, 0), ("phases", 10, 0), ("snapvote", 6, 0), ("logfail", 8, 0)], thorough=[("chaos", 120, 800), ("snap", 200, 800), ("client", 80, 600), ("restart", 80, 600), ("restoreinflight", 96, 0), ("restore", 60, 500), ("dupis", 48, 500), ("snapcfgrace", 96, 0), ("snapmember", 60, 500), ("staleprefix", 32, 0), ("restorebacklog", 48, 0), ("phases", 64, 0), ("snapvote", 36, 0), ("mixedbatch", 24, 0), ("logfail", 48, 0)])),
    "C03": dict(models=dict(quick=[("MC_HRaft.tla", "MC_Replication_q.cfg", 300)], thorough=[("MC_HRaft.tla", "MC_Replication.cfg", 900), ("MC_HRaft.tla", "MC_Crash.cfg", 900)]), families=dict(quick=[("chaos", 24, 500), ("restart", 16, 400), ("figure8", 40, 0), ("dupis", 9, 500), ("stalerepl", 6, 0), ("phases", 10, 0), ("cfgtrunc", 12, 0)], thorough=[("chaos", 200, 800), ("restart", 120, 600), ("member", 60, 500), ("figure8", 64, 0), ("cfgtrunc", 48, 0), ("dupis", 48, 500), ("stalerepl", 32, 0), ("phases", 64, 0), ("snapvote", 24, 0)])),
    "C04": dict(models=dict(quick=[("MC_HRaft.tla", "MC_Dup_q.cfg", 300)], thorough=[("MC_HRaft.tla", "MC_Replication.cfg", 900), ("MC_HRaft.tla", "MC_Dup_q.cfg", 600)]), families=dict(quick=[("chaos", 16, 500), ("snap", 12, 400), ("snapcfgterm", 12, 0)], thorough=[("chaos", 200, 800), ("snap", 120, 600), ("restart", 80, 600), ("snapcfgterm", 48, 0)]), suites=["l2:ae"]),
    "C05": dict(models=dict(quick=[("MC_HRaft.tla", "MC_Replication_q.cfg", 300)], thorough=[("MC_HRaft.tla", "MC_Replication.cfg", 900), ("MC_HRaft.tla", "MC_Membership.cfg", 1200)]), families=dict(quick=[("chaos", 20, 500), ("member", 16, 400), ("figure8", 8, 0), ("dupis", 9, 500), ("phases", 10, 0)], thorough=[("chaos", 160, 800), ("member", 120, 600), ("figure8", 64, 0), ("dupis", 48, 500), ("phases", 64, 0)]), suites=["l1:commitment"]),
    "C06": dict(models=dict(quick=[("MC_HRaft.tla", "MC_Crash_q.cfg", 300), ("FastPath.tla", "FastPath_design.cfg", 120), ("FastPath.tla", "FastPath_asis.cfg", 120, "TermNeverDecreases")], thorough=[("MC_HRaft.tla", "MC_Crash.cfg", 900), ("MC_HRaft.tla", "MC_Election.cfg", 900), ("FastPath.tla", "FastPath_design6.cfg", 300), ("FastPath.tla", "FastPath_asis.cfg", 120, "TermNeverDecreases")]), families=dict(quick=[("elect", 16, 400), ("voterestart", 6, 0), ("phases", 8, 0), ("fastpathup", 6, 0), ("cfgtrunc", 12, 0), ("fastpathsnap", 4, 0)], thorough=[("elect", 240, 600), ("chaos", 80, 600), ("voterestart", 32, 0), ("phases", 48, 0), ("fastpathup", 40, 0), ("snapvote", 24, 0), ("cfgtrunc", 48, 0), ("fastpathsnap", 24, 0)]), suites=["l2:vote", "l2:vote2", "l2:vote3"]),
    "C07": dict(models=dict(quick=[("MC_HRaft.tla", "MC_Membership_q.cfg", 300)], thorough=[("MC_HRaft.tla", "MC_Membership.cfg", 1200)]), families=dict(quick=[("member", 24, 400), ("cfgtrunc", 8, 0), ("snapmember", 8, 400), ("demoteelect", 8, 0), ("xfernonvoter", 8, 0), ("restorefresh", 8, 0)], thorough=[("restorefresh", 48, 0), ("member", 240, 600), ("cfgtrunc", 32, 0), ("snapmember", 80, 500), ("demoteelect", 48, 0), ("xfernonvoter", 48, 0), ("cfgtruncelect", 24, 0)]), suites=["l1:configuration"]),
    "C08": dict(families=dict(quick=[("client", 32, 400), ("barrierrace", 8, 0), ("mixedbatch", 10, 0), ("logfail", 8, 0)], thorough=[("client", 240, 600), ("chaos", 80, 600), ("barrierrace", 48, 0), ("mixedbatch", 48, 0), ("logfail", 48, 0)])),
    "C09": dict(models=dict(quick=[("VerifyLeader.tla", "VerifyLeader_fixed.cfg", 120), ("VerifyLeader.tla", "VerifyLeader_aswas.cfg", 120, "NoStaleSuccess")], thorough=[("VerifyLeader.tla", "VerifyLeader_fixed5.cfg", 300), ("VerifyLeader.tla", "VerifyLeader_aswas.cfg", 120, "NoStaleSuccess")]), families=dict(quick=[("verify", 32, 400), ("member", 8, 400), ("verifywide", 12, 0)], thorough=[("verify", 240, 600), ("member", 80, 500), ("verifywide", 96, 0)])),
    "C10": dict(models=dict(quick=[], thorough=[("MC_HRaft.tla", "MC_Crash.cfg", 900)]), families=dict(quick=[("restart", 24, 400), ("snapcfgrace", 12, 0), ("snapmember", 8, 400), ("ctcrash", 12, 0), ("voterestart", 6, 0)], thorough=[("restart", 240, 600), ("snap", 80, 600), ("snapcfgrace", 96, 0), ("snapmember", 80, 500), ("ctcrash", 64, 0), ("voterestart", 32, 0)]), suites=["l2:restart"]),
    "C11": dict(models=dict(quick=[("MC_HRaft.tla", "MC_Snapshot_q.cfg", 300)], thorough=[("MC_HRaft.tla", "MC_Snapshot_q.cfg", 900)]), families=dict(quick=[("snap", 24, 400), ("restart", 16, 400), ("snapcfgrace", 12, 0), ("phases", 10, 0), ("snapcfgterm", 6, 0)], thorough=[("snap", 200, 700), ("restart", 160, 600), ("restore", 60, 500), ("snapcfgrace", 96, 0), ("snapmember", 80, 500), ("phases", 64, 0), ("apibound", 48, 0), ("snapcfgterm", 24, 0)]), suites=["l1:compaction", "comp:filesnap"]),
    "C12": dict(families=dict(quick=[("chaos", 16, 400), ("snap", 16, 400), ("restart", 12, 400), ("elect", 16, 400), ("prevoteterm", 8, 0), ("phases", 10, 0), ("cfgtruncelect", 8, 0), ("replaceleader", 8, 0)], thorough=[("replaceleader", 48, 0), ("chaos", 120, 700), ("snap", 160, 700), ("restart", 120, 600), ("member", 40, 500), ("elect", 120, 500), ("restore", 60, 500), ("prevoteterm", 48, 0), ("phases", 64, 0), ("cfgtruncelect", 48, 0), ("snapvote", 24, 0)])),
    "C13": dict(models=dict(quick=[("LeaseTimed.tla", "LeaseTimed_q.cfg", 120)], thorough=[("LeaseTimed.tla", "LeaseTimed.cfg", 900), ("LeaseTimed.tla", "LeaseTimed_norearm.cfg", 300, "StepsDownInTime")]), families=dict(quick=[("lease", 24, 500), ("leasequiet", 8, 400), ("leaseiso", 12, 0), ("leaseadd", 12, 0), ("leaseslowdisk", 12, 0)], thorough=[("lease", 200, 800), ("leasequiet", 48, 1200), ("leaseiso", 96, 0), ("leaseadd", 96, 0), ("leaseslowdisk", 72, 0)])),
    "C14": dict(models=dict(quick=[("MC_HRaft.tla", "MC_Election_q.cfg", 300), ("MC_HRaft.tla", "MC_Transfer_q.cfg", 600)], thorough=[("MC_HRaft.tla", "MC_Election.cfg", 900), ("MC_HRaft.tla", "MC_Transfer_q.cfg", 900)]), families=dict(quick=[("prevote", 30, 0), ("elect", 12, 400), ("prevoteterm", 6, 0), ("xferisolated", 8, 0)], thorough=[("prevote", 240, 0), ("elect", 120, 600), ("chaos", 60, 600), ("prevoteterm", 32, 0), ("xferisolated", 48, 0), ("fastpathrace", 24, 0), ("xfernonvoter", 24, 0)])),
    "C16": dict(families=dict(quick=[], thorough=[]), suites=["comp:nettrans"]),
    "C17": dict(models=dict(quick=[("Lifecycle.tla", "Lifecycle_repaired.cfg", 120), ("Lifecycle.tla", "Lifecycle_asis.cfg", 120, "NoStrandedCaller")], thorough=[("Lifecycle.tla", "Lifecycle_repaired.cfg", 300), ("Lifecycle.tla", "Lifecycle_asis.cfg", 120, "NoStrandedCaller"), ("Lifecycle.tla", "Lifecycle_unbuffered.cfg", 120, "NoStrandedCaller")]), families=dict(quick=[("lifecycle", 32, 400), ("restoreinflight", 8, 0), ("transferhang", 6, 0), ("apibound", 12, 0), ("notifyinflight", 8, 0), ("logfail", 6, 0)], thorough=[("lifecycle", 240, 600), ("client", 60, 500), ("restore", 60, 400), ("restoreinflight", 48, 0), ("transferhang", 36, 0), ("phases", 48, 0), ("apibound", 96, 0), ("notifyinflight", 48, 0), ("logfail", 24, 0)])),
    "C18": dict(models=dict(quick=[("FastPath.tla", "FastPath_design.cfg", 120), ("FastPath.tla", "FastPath_no19.cfg", 120, "AdvertisedLeaderLedTerm")], thorough=[("FastPath.tla", "FastPath_design6.cfg", 300), ("FastPath.tla", "FastPath_no19.cfg", 120, "AdvertisedLeaderLedTerm")]), families=dict(quick=[("notify", 32, 400), ("notifyshort", 8, 0), ("fastpathrace", 6, 0), ("fastpathterm", 6, 0), ("fastpathsnap", 8, 0)], thorough=[("notify", 240, 600), ("elect", 80, 500), ("notifyshort", 48, 0), ("fastpathrace", 32, 0), ("phases", 48, 0), ("fastpathterm", 36, 0), ("fastpathsnap", 48, 0)])),
    "C15": dict(families=dict(quick=[], thorough=[]), suites=["comp:filesnap", "strace:filesys"]),
    "C19": dict(families=dict(quick=[], thorough=[]), suites=["comp:logcache"]),
    "C20": dict(models=dict(quick=[("Restore.tla", "Restore_q.cfg", 300), ("Restore.tla", "Restore_no12.cfg", 120, "AbortedLeaveNoTrace")], thorough=[("Restore.tla", "Restore_fixed.cfg", 1500), ("Restore.tla", "Restore_no12.cfg", 120, "AbortedLeaveNoTrace")]), families=dict(quick=[("restore", 24, 400), ("restoreinflight", 16, 0), ("restorestale", 12, 0)], thorough=[("restore", 240, 600), ("restorestale", 72, 0), ("restoreinflight", 128, 0), ("apibound", 48, 0), ("restorebacklog", 32, 0)])),
}

# Every property predicate is evaluated on every trace, whichever family produced it. A change to the library that
# breaks property X often needs a history that was staged for property Y (a truncated configuration entry, a voter
# restarting in the term it voted in, a slow store under the fast path ...): each cluster-level check therefore also
# runs a few seeds of every directed family it does not already run, starting at a run number of its own.
POOL = ["figure8", "cfgtrunc", "snapcfgrace", "restoreinflight", "prevoteterm", "leaseiso", "voterestart", "stalerepl",
        "demoteelect", "barrierrace", "transferhang", "notifyshort", "fastpathrace", "xferisolated", "stalledleader",
        "restorebacklog", "ctcrash", "apibound", "leaseadd", "verifywide", "fastpathterm", "mixedbatch", "xfernonvoter",
        "cfgtruncelect", "snapvote", "phases", "staleprefix", "cfgtrunc", "logfail", "leaseslowdisk", "notifyinflight",
        "fastpathsnap", "snapcfgterm", "restorestale", "restorefresh", "replaceleader"]
POOL_RUNS = dict(quick=2, thorough=8)


def families_of(pid, tier):
    fams = list(PLANS[pid]["families"][tier])
    if not fams:
        return fams
    have = {f[0] for f in fams}
    k = int(pid[1:])
    for f in POOL:
        if f not in have:
            fams.append((f, POOL_RUNS[tier], 0, 100 + (k * POOL_RUNS[tier]) % 24))
    return fams


ASSUMPTIONS = [
    "collaborators (Transport, LogStore, StableStore, SnapshotStore, FSM) are the harness's simulated ones; real disks/kernels/networks are outside",
    "schedules are explored at the granularity of gated interface calls inside a testing/synctest bubble (virtual time)",
    "exhaustive model results hold for the stated small constants only",
]


# hashicorp/raft takes the process down itself (panic(...) in its own code) when one of its invariants is broken.
# Such a crash under the simulator is real-code behaviour: it is mapped to the property whose guarantee it voids.
PANICS = [
    (re.compile(r"failed to restore snapshot"), "C17", "LibraryPanicInRestore"),
    (re.compile(r"log not found|failed to get log"), "C02", "LibraryPanicCommittedLogMissing"),
]


def classify_panic(job, out, tracedir):
    m = re.search(r"panic: (.*)", out)
    if not m:
        return None
    frames = re.findall(r"^(\S+)\(.*\)\n\t(\S+):(\d+)", out, re.M)
    lib = [f for f in frames if f[0].startswith("github.com/hashicorp/raft.") and "/harness/" not in f[1]]
    if not lib or not frames or not frames[0][0].startswith(("github.com/hashicorp/raft.", "panic")):
        return None
    for rx, prop, pred in PANICS:
        if rx.search(m.group(1)):
            os.makedirs(tracedir, exist_ok=True)
            p = os.path.join(tracedir, "%s-%d.panic.txt" % (job[0], job[1]))
            with open(p, "w") as w:
                w.write("family=%s first=%d runs=%d steps=%d\n%s" % (job[0], job[1], job[2], job[3], out))
            return {"prop": prop, "pred": pred, "detail": "%s at %s:%s" % (m.group(1)[:160], os.path.basename(lib[0][1]), lib[0][2]),
                    "file": p, "line": 0, "trace": 0}
    return None


def run(pid, tier, seed):
    if pid not in PLANS:
        log("property %s is not claimed by a check" % pid)
        return 2
    plan = PLANS[pid]
    fams = families_of(pid, tier)
    t0 = time.time()
    outdir = os.path.join(vcheck.OUT, pid, tier)
    os.makedirs(outdir, exist_ok=True)
    bins = vcheck.build_harness(("sim",))
    problems = []
    # 1. bounded models (design level)
    models = []
    for spec in plan.get("models", {}).get(tier, []):
        module, cfg, tmo = spec[0], spec[1], spec[2]
        expect = spec[3] if len(spec) > 3 else None      # a configuration that DOCUMENTS a finding: TLC must find this violation
        m = vcheck.model_check(module, cfg, timeout=tmo)
        m["expected_counterexample"] = expect
        models.append(m)
        if expect:
            hit = (not m["ok"]) and m["violated"] is not None and expect in m["violated"]
            log("MODEL %s %s (configuration that documents a finding): %s states=%d %.0fs" % (module, cfg, ("counterexample to %s found, as recorded" % expect) if hit else ("unexpected result: %s" % ("no error" if m["ok"] else m["violated"])), m["states"], m["wall_s"]))
            m["ok"] = bool(hit)
            if not hit and not (m["ok"] or m["violated"] in ("timeout", "error")):
                pass
            if m["violated"] in ("timeout", "error"):
                problems.append("model %s/%s: %s" % (module, cfg, m["violated"]))
            continue
        log("MODEL %s %s: %s states=%d distinct=%d depth=%d %.0fs" % (module, cfg, "ok" if m["ok"] else m["violated"], m["states"], m["distinct"], m["depth"], m["wall_s"]))
        if not m["ok"]:
            problems.append("model %s/%s: %s" % (module, cfg, m["violated"]))
    # 1b. generated-case suites on the real pure functions (L1)
    suite_res = []
    for su in plan.get("suites", []):
        kind, arg = su.split(":")
        if kind == "l2":
            r = run_l2(arg, outdir, tier, bins)
        if kind == "strace":
            r = run_strace_filesys(outdir)
            suite_res.append(r)
            log("STRACE filesys: %d operations observed, judged by TLC" % r["replayed"])
            problems += r["problems"]
        if kind in ("l1", "comp", "l2"):
            if kind != "l2":
                r = run_l1(arg, outdir, tier)
            suite_res.append(r)
            log("L1 %s: %d rows generated by TLC (%d distinct model states), %d replayed on the real function, %d nonconformance" % (arg, r["rows"], r["distinct"], r["replayed"], len(r["nonconf"])))
            problems += r["problems"]
    # 2. real code under the simulator
    traces, bad = ([], [])
    if fams:
        traces, bad = vcheck.run_families(bins["sim"], fams, seed, os.path.join(outdir, "traces"))
    panic_viols = []
    for job, rc, out in bad:
        pv = classify_panic(job, out, os.path.join(outdir, "traces"))
        if pv:
            panic_viols.append(pv)
        else:
            problems.append("simulator job %s exited %d: %s" % (job, rc, out[-400:].replace("\n", " | ")))
    log("SIM %d traces from %s (seed %d)" % (len(traces), [f[0] for f in fams], seed))
    # 3. TLC judges every trace
    if fams:
        res = vcheck.validate_traces(traces, os.path.join(outdir, "tlc"))
    else:
        res = dict(viols=[], nonconf=[], lines=0, traces_ok=0, states=0, problems=[], infos=[])
    problems += res["problems"]
    log("TLC validated %d/%d traces, %d lines, %d nonconformance notes" % (res["traces_ok"], len(traces), res["lines"], len(res["nonconf"])))
    known = vcheck.load_known()
    for r in suite_res:
        res["viols"] += r["viols"]
        res["nonconf"] += r["nonconf"]
    res["viols"] += panic_viols
    mine = [v for v in res["viols"] if v["prop"] == pid]
    others = [v for v in res["viols"] if v["prop"] != pid]
    new, seen_known = [], {}
    kctx = vcheck.known_context(res["viols"])
    for v in mine:
        k = vcheck.match_known(v, known, kctx)
        if k:
            seen_known.setdefault(k["id"], (k, v))
        else:
            new.append(v)
    for kid, (k, v) in sorted(seen_known.items()):
        what = re.sub(r"^open: property=C\d+ ", "", k.get("line", k["what"]))
        log("KNOWN-FINDING: property=%s %s [%s] e.g. %s line %d (%s)" % (pid, what, kid, os.path.relpath(v["file"], vcheck.ROOT), v["line"], v["pred"]))
    others = [v for v in others if not vcheck.match_known(v, known, kctx)]
    for v in others[:10]:
        log("NOTE other-property predicate %s/%s false at %s line %d (judged by that property's own check)" % (v["prop"], v["pred"], os.path.basename(v["file"]), v["line"]))
    nc_kinds = {}
    for n in res["nonconf"]:
        nc_kinds[n["prop"] + "/" + n["detail"][:60]] = nc_kinds.get(n["prop"] + "/" + n["detail"][:60], 0) + 1
    for n in res["nonconf"][:5]:
        log("NONCONFORMANCE action=%s %s at %s line %d (informational)" % (n["prop"], n["detail"][:160], os.path.basename(n["file"]), n["line"]))
    # 4. evidence
    states = res["states"] + sum(m["distinct"] for m in models) + sum(r["distinct"] for r in suite_res)
    transitions = res["lines"] + sum(m["states"] for m in models) + sum(r["rows"] for r in suite_res)
    samples = vcheck.sample_lines(traces[0]) if traces else []
    for r in suite_res:
        samples += r["samples"]
    cov = {
        "states": max(states, 1), "transitions": max(transitions, 1),
        "traces_validated_against_impl": res["traces_ok"] + sum(r["replayed"] for r in suite_res),
        "generated_case_suites": [{k: r[k] for k in ("suite", "rows", "distinct", "replayed", "exhaustive", "bounds")} for r in suite_res],
        "samples": samples or [{"note": "no trace produced"}],
        "models": [{k: m.get(k) for k in ("module", "cfg", "ok", "states", "distinct", "depth", "wall_s", "expected_counterexample")} for m in models],
        "families": [{"family": e[0], "runs": e[1], "steps": e[2]} for e in fams],
        "trace_lines": res["lines"], "nonconformance_notes": len(res["nonconf"]), "nonconformance_kinds": len(nc_kinds),
        "known_findings_seen": sorted(seen_known.keys()),
        "problems": problems,
        "exhaustive": bool(suite_res) and not fams,
    }
    vcheck.write_evidence(pid, tier, seed, "model_checking", cov, time.time() - t0, len(new), ASSUMPTIONS)
    if new:
        v = new[0]
        for x in new[:8]:
            log("  predicate %s/%s false: %s (%s line %d)" % (x["prop"], x["pred"], x["detail"][:200], os.path.basename(x["file"]), x["line"]))
        log("VIOLATION property=%s replay=%s" % (pid, v["file"]))
        return 1
    if problems:
        for p in problems:
            log("PROBLEM " + p)
        return 2
    log("OK property=%s tier=%s seed=%d wall=%.0fs" % (pid, tier, seed, time.time() - t0))
    return 0


L1 = {
    "commitment": dict(module="L1Commitment.tla", cfg="L1Commitment.cfg", test="TestCommitment", prefix="EDGE",
                       bounds="3 servers x suffrage {V,N,S,absent}, match index 0..3, startIndex 0..4: every reachable commitment state x every match/setConfiguration call"),
    "configuration": dict(module="L1Configuration.tla", cfg="L1Configuration.cfg", test="TestConfiguration", prefix="ROW",
                          bounds="every valid configuration over ids {a,b,c} x suffrage {V,N,S,absent} x 5 commands x ids {a,b,c,new,''} x addresses x prevIndex {0,current,stale}"),
    "logcache": dict(module="LogCache.tla", cfg="LogCache.cfg", test="TestLogCache", prefix="EDGE", pkg="comp", env={"VERIF_CAP": "2"},
                     bounds="indexes 1..4, ring capacity 2, each index written at most twice, batches of 1-2, every StoreLogs/DeleteRange with and without an injected backend error: the whole reachable state graph, every edge replayed",
                     thorough=dict(cfg="LogCacheBig.cfg", env={"VERIF_CAP": "3"},
                                   bounds="indexes 1..5, ring capacity 3, each index written at most twice, batches of 1-3: whole reachable state graph")),
    "filesnap": dict(module="FileSnap.tla", cfg="FileSnap.cfg", test="TestFileSnap", prefix="CASE", pkg="comp",
                     bounds="histories of 1-2 snapshots (quick) / 1-3 (thorough) over (term,index) in {(1,5),(2,3),(2,7),(2,10)}, each closed or cancelled, retain in {1,2}; the real store is stopped at EVERY hook point between file-system steps (as-is tree, rename-lost variant, half-reaped variants), recovered with a fresh store",
                     thorough=dict(cfg="FileSnapBig.cfg")),
    "nettrans": dict(module="NetTrans.tla", cfg="NetTrans.cfg", test="TestNetTrans", prefix="CASE", pkg="comp",
                     bounds="every sequence of 1-2 calls (quick) / 1-3 (thorough, every 8th) over {AppendEntries, RequestVote, RequestPreVote, InstallSnapshot with body, TimeoutNow, pipeline of 3 AppendEntries} x {no fault, connection cut inside the request, cut inside the response, slow handler, handler error} x pool size {1,2} x {sequential, concurrent}; field values generated per seed",
                     thorough=dict(cfg="NetTransBig.cfg", env={"VERIF_STRIDE": "8"})),
    "compaction": dict(module="L1Compaction.tla", cfg="L1Compaction.cfg", test="TestCompaction", prefix="ROW",
                       bounds="(firstIndex, snapIdx, lastLogIdx, trailing) over 0..6 each"),
}


L2 = {
    "ae": dict(quick="L2_ae_q.cfg", thorough="L2_ae.cfg", stride=dict(quick=2, thorough=1),
               bounds="follower images: log of <=2 (quick) / <=3 (thorough) entries over terms 1..3 with/without a snapshot boundary and trailing entry, current term = last term or +1; requests: term below/equal/above, every prev index 0..len+1 x prev term, 0-2 entries with every non-decreasing term pattern, leaderCommit in {0,2,9}"),
    "vote": dict(quick="L2_vote_q.cfg", thorough="L2_vote.cfg", stride=dict(quick=1, thorough=1),
                 bounds="images: every (CurrentTerm, LastVoteTerm, LastVoteCand) over terms 1..3 x candidates x logs; one RequestVote/RequestPreVote/TimeoutNow with every term/candidate/last-log position/transfer flag, a crash before the 1st..3rd stable write or an injected error on the 1st/2nd failable write, then restart"),
    "restart": dict(quick="L2_restart_q.cfg", thorough="L2_restart.cfg", stride=dict(quick=1, thorough=1),
                    bounds="every durable image (log of <=2 / <=3 entries over terms 1..3, with/without snapshot and trailing entry, three vote records) x store flavour {plain, monotonic, commit-tracking with every staged commit index}: NewRaft on it, then crash and NewRaft again"),
    "vote3": dict(quick="L2_vote3.cfg", thorough="L2_vote3.cfg", stride=dict(quick=1, thorough=1),
                  bounds="every image whose snapshot is at or ahead of the end of its log (log of <=3 entries over terms 1..3 compacted to 0/1 trailing entries, current term = last term or +1) x one RequestVote / RequestPreVote with every term / candidate / last-log position relative to the snapshot / transfer flag"),
    "vote2": dict(quick="L2_vote2.cfg", thorough="L2_vote2.cfg", stride=dict(quick=4, thorough=1),
                  bounds="as 'vote' from the images with CurrentTerm 2 and a 2-entry log, followed by a second fault-free RequestVote from either candidate"),
}


def run_l2(kind, outdir, tier, bins):
    """TLC enumerates (durable image x request sequence) cases; each is executed on ONE real node started by
    NewRaft on the image; the traces are judged by HRaftTrace (step predicates + handler operators)."""
    import re, subprocess
    spec = L2[kind]
    r = dict(suite="l2:" + kind, rows=0, distinct=0, replayed=0, viols=[], nonconf=[], problems=[], samples=[], exhaustive=True,
             bounds=spec["bounds"] + ("; this tier executes every %d-th case (offset by the seed)" % spec.get("stride", {}).get(tier, 1) if spec.get("stride", {}).get(tier, 1) > 1 else ""), lines=0, states=0)
    if spec.get("stride", {}).get(tier, 1) > 1:
        r["exhaustive"] = False
    d = os.path.join(outdir, "l2_" + kind)
    os.makedirs(d, exist_ok=True)
    for f in os.listdir(d):
        if f.endswith(".ndjson"):
            os.remove(os.path.join(d, f))
    t0 = time.time()
    rc, out = vcheck.run_tlc("L2Cases.tla", spec[tier], d, workers=1, timeout=900)
    t_gen = time.time() - t0
    gen = os.path.join(d, "cases.gen.txt")
    with open(gen, "w") as f:
        f.write(out)
    r["rows"] = sum(1 for ln in out.splitlines() if ln.startswith('"CASE|'))
    m = re.search(r"(\d+) states generated, (\d+) distinct states found", out)
    if m:
        r["distinct"] = int(m.group(2))
    if "No error has been found" not in out or r["rows"] == 0:
        r["problems"].append("L2 generator %s failed (see %s)" % (kind, gen))
        return r
    shards = vcheck.NCPU

    def one(k):
        env = dict(vcheck.GOENV, VERIF_CASES=gen, VERIF_OUT=d, VERIF_SHARD=str(k), VERIF_SHARDS=str(shards), GOMAXPROCS="2",
                   VERIF_STRIDE=str(spec.get("stride", {}).get(tier, 1)), VERIF_SEED=os.environ.get("VERIF_SEED", "1"))
        p = subprocess.run([bins["sim"], "-test.run", "^TestL2$", "-test.count=1", "-test.timeout", "1500s"], env=env, capture_output=True, text=True)
        return k, p.returncode, (p.stdout + p.stderr)[-500:]
    from concurrent.futures import ThreadPoolExecutor
    with ThreadPoolExecutor(max_workers=shards) as ex:
        for k, rc, o in ex.map(one, range(shards)):
            if rc != 0:
                r["problems"].append("L2 shard %d of %s exited %d: %s" % (k, kind, rc, o.replace("\n", " | ")))
            m = re.search(r"done=(\d+)", o)
            if m:
                r["replayed"] += int(m.group(1))
    t_run = time.time() - t0 - t_gen
    traces = sorted(os.path.join(d, f) for f in os.listdir(d) if f.endswith(".ndjson"))
    # each shard file already is a concatenation of traces
    res = {"viols": [], "nonconf": [], "problems": [], "lines": 0, "states": 0}

    def val(path):
        rc, out = vcheck.run_tlc("HRaftTrace.tla", "HRaftTrace.cfg", d, {"VERIF_TRACE": path}, workers=1, timeout=1500)
        return path, rc, out
    with ThreadPoolExecutor(max_workers=vcheck.NCPU) as ex:
        for path, rc, out in ex.map(val, traces):
            v, n, ends, infos = vcheck.parse_trace_output(out)
            for x in v + n:
                x["file"] = path
            r["viols"] += v
            r["nonconf"] += n
            m = re.search(r"(\d+) states generated", out)
            if m:
                r["lines"] += int(m.group(1))
            if rc != 0 or "No error has been found" not in out:
                with open(path + ".tlc.log", "w") as f:
                    f.write(out)
                r["problems"].append("TLC did not consume %s (rc=%d)" % (path, rc))
    if traces:
        r["samples"] = vcheck.sample_lines(traces[0], 4, want=("handle", "store", "crash"))
    log("L2 %s timing: generate %.0fs, execute %.0fs, validate %.0fs" % (kind, t_gen, t_run, time.time() - t0 - t_gen - t_run))
    return r


def run_strace_filesys(outdir):
    """The real FileSnapshotStore under strace: the system-call order of Create/Write/Close/Cancel is judged by TLC."""
    import subprocess, tempfile, shutil
    r = dict(suite="strace:filesys", rows=0, distinct=0, replayed=0, viols=[], nonconf=[], problems=[], samples=[], exhaustive=False,
             bounds="one scenario (close, cancel, close with retain 1) observed with strace -f; every write/fsync/rename/unlink on the snapshot files")
    d = os.path.join(outdir, "strace")
    os.makedirs(d, exist_ok=True)
    bins = vcheck.build_harness(("comp",))
    tmp = tempfile.mkdtemp(prefix="verif-fsys-")
    try:
        logp = os.path.join(d, "strace.log")
        env = dict(vcheck.GOENV, VERIF_FS_DIR=tmp)
        p = subprocess.run(["strace", "-f", "-o", logp, "-e", "trace=openat,write,pwrite64,fsync,fdatasync,rename,renameat,renameat2,unlinkat,unlink,rmdir,newfstatat,statx,close",
                            bins["comp"], "-test.run", "^TestFileSnapSyscalls$", "-test.count=1"], env=env, capture_output=True, text=True)
        if p.returncode != 0:
            r["problems"].append("strace run failed: " + (p.stdout + p.stderr)[-400:])
            return r
    finally:
        shutil.rmtree(tmp, ignore_errors=True)
    real = os.path.join(d, "filesys.real.ndjson")
    p = subprocess.run([sys.executable, os.path.join(vcheck.ROOT, "lib", "strace2events.py"), logp, real], capture_output=True, text=True)
    rc, out = vcheck.run_tlc("L1Real.tla", "L1Real.cfg", d, {"VERIF_L1_REAL": real, "VERIF_L1_KIND": "filesys"}, workers=1, timeout=300)
    v, n, ends, infos = vcheck.parse_trace_output(out)
    for x in v + n:
        x["file"] = real
    r["viols"], r["nonconf"] = v, n
    if len(ends) != 1 or int(ends[0][1]) - 1 < 3:
        r["problems"].append("strace judge did not see the 3 operations")
    else:
        r["replayed"] = int(ends[0][1]) - 1
        r["rows"] = r["replayed"]
    try:
        with open(real) as f:
            r["samples"] = [json.loads(next(f))]
    except Exception:
        pass
    return r


def run_l1(kind, outdir, tier="quick"):
    """TLC enumerates the transcribed operator (and checks the property on it); the rows are replayed on the
    real function; TLC judges the real outputs."""
    import re, subprocess
    spec = dict(L1[kind])
    if tier == "thorough" and "thorough" in spec:
        spec.update(spec["thorough"])
    pkg = spec.get("pkg", "l1")
    r = dict(suite=pkg + ":" + kind, rows=0, distinct=0, replayed=0, viols=[], nonconf=[], problems=[], samples=[], exhaustive=True, bounds=spec["bounds"])
    d = os.path.join(outdir, "l1")
    os.makedirs(d, exist_ok=True)
    rc, out = vcheck.run_tlc(spec["module"], spec["cfg"], d, workers=1, timeout=900)
    gen = os.path.join(d, kind + ".gen.txt")
    with open(gen, "w") as f:
        f.write(out)
    m = re.search(r"(\d+) states generated, (\d+) distinct states found", out)
    if m:
        r["distinct"] = int(m.group(2))
    r["rows"] = sum(1 for ln in out.splitlines() if ln.startswith('"' + spec["prefix"] + "|"))
    if "No error has been found" not in out:
        r["problems"].append("L1 model %s: TLC reported an error on the transcribed operator (see %s)" % (kind, gen))
        return r
    bins = vcheck.build_harness((pkg,))
    real = os.path.join(d, kind + ".real.ndjson")
    env = dict(vcheck.GOENV, VERIF_L1_IN=gen, VERIF_L1_OUT=real, VERIF_IN=gen, VERIF_OUT=real, VERIF_SEED=os.environ.get("VERIF_SEED", "1"))
    env.update(spec.get("env", {}))
    p = subprocess.run([bins[pkg], "-test.run", "^" + spec["test"] + "$", "-test.count=1"], env=env, capture_output=True, text=True)
    if p.returncode != 0:
        r["problems"].append("L1 replay %s failed: %s" % (kind, (p.stdout + p.stderr)[-600:]))
        return r
    rc, out = vcheck.run_tlc("L1Real.tla", "L1Real.cfg", d, {"VERIF_L1_REAL": real, "VERIF_L1_KIND": kind}, workers=1, timeout=900)
    v, n, ends, infos = vcheck.parse_trace_output(out)
    for x in v + n:
        x["file"] = real
    r["viols"], r["nonconf"] = v, n
    if len(ends) != 1:
        r["problems"].append("L1 judge %s did not finish" % kind)
        with open(real + ".tlc.log", "w") as f:
            f.write(out)
    else:
        r["replayed"] = int(ends[0][1]) - 1
    try:
        with open(real) as f:
            r["samples"] = [json.loads(next(f)) for _ in range(2)]
    except Exception:
        pass
    return r


def replay(path):
    """Re-validate one recorded trace with TLC (deterministic) and print what is false in it."""
    if not os.path.exists(path):
        log("no such file " + path)
        return 2
    m = re.search(r"([a-z]+)\.real\.ndjson$", path)
    if m:
        # what the real function / component returned for TLC-generated cases: re-judge with TLC
        kind = m.group(1)
        rc, out = vcheck.run_tlc("L1Real.tla", "L1Real.cfg", None, {"VERIF_L1_REAL": os.path.abspath(path), "VERIF_L1_KIND": kind}, workers=1, timeout=900)
        v, n, ends, infos = vcheck.parse_trace_output(out)
        for x in v[:20]:
            log("predicate %s/%s false at row %d: %s" % (x["prop"], x["pred"], x["line"], x["detail"][:300]))
        if v:
            log("VIOLATION property=%s replay=%s" % (v[0]["prop"], path))
            return 1
        return 0 if len(ends) == 1 else 2
    wd = os.path.join(vcheck.OUT, "replay")
    res = vcheck.validate_traces([path], wd, chunks=1)
    for v in res["viols"]:
        log("predicate %s/%s false at line %d: %s" % (v["prop"], v["pred"], v["line"], v["detail"][:300]))
    for p in res["problems"]:
        log("PROBLEM " + p)
    if res["viols"]:
        log("VIOLATION property=%s replay=%s" % (res["viols"][0]["prop"], path))
        return 1
    return 2 if res["problems"] else 0


def dev(fams, runs, steps):
    """Development aid: run families, validate, summarise every predicate that is false."""
    seed = int(os.environ.get("VERIF_SEED", "1"))
    bins = vcheck.build_harness(("sim",))
    outdir = os.path.join(vcheck.OUT, "dev")
    traces, bad = vcheck.run_families(bins["sim"], [(f, runs, steps) for f in fams.split(",")], seed, os.path.join(outdir, "traces"))
    for job, rc, out in bad:
        pv = classify_panic(job, out, os.path.join(outdir, "traces"))
        log("BAD", job, rc, ("LIBRARY PANIC -> %s/%s %s" % (pv["prop"], pv["pred"], pv["detail"])) if pv else out[-1500:])
    res = vcheck.validate_traces(traces, os.path.join(outdir, "tlc"))
    log("traces %d ok %d lines %d" % (len(traces), res["traces_ok"], res["lines"]))
    summ = {}
    for v in res["viols"]:
        summ.setdefault(("VIOL", v["prop"], v["pred"]), []).append(v)
    for v in res["nonconf"]:
        summ.setdefault(("NONCONF", v["prop"], v["detail"].split("{")[-1][:40]), []).append(v)
    for k, vs in sorted(summ.items()):
        v = vs[0]
        log("%s %s/%s x%d e.g. %s:%d %s" % (k[0], k[1], k[2], len(vs), os.path.basename(v["file"]), v["line"], v["detail"][:140]))
    for p in res["problems"]:
        log("PROBLEM", p)
    keep = os.path.join(outdir, "keep")
    os.makedirs(keep, exist_ok=True)
    import shutil
    for f in sorted({v["file"] for v in res["viols"] if v["pred"] not in ("VerifiedOnAckProducedBeforeCall", "FutureNeverResolved", "CallAfterShutdownNotRefused")} | {v["file"] for v in res["nonconf"]}):
        shutil.copy(f, os.path.join(keep, "s%d-%s" % (seed, os.path.basename(f))))
    return 0
