#!/bin/sh
# Runs the thorough tier of every check in turn (used with `vp run`); prints one line per check.
cd "$(dirname "$0")"
./setup.sh >/dev/null 2>&1 || echo "setup failed"
for i in ${SWEEP:-01 02 03 04 05 06 07 08 09 10 11 12 13 14 17 18 20 15 16 19}; do
  s=$(date +%s)
  ./check C$i thorough > sweep_C$i.log 2>&1; rc=$?
  e=$(date +%s)
  echo "C$i thorough rc=$rc $((e-s))s known=$(grep -c KNOWN-FINDING sweep_C$i.log) $(grep -h '^VIOLATION\|INCONCLUSIVE\|problem' sweep_C$i.log | head -2 | cut -c1-220)"
done
