----------------------------- MODULE HRaftTrace -----------------------------
(***************************************************************************)
(* Trace specification: reads ndjson traces recorded from clusters of REAL  *)
(* hashicorp/raft nodes (harness/sim) and, line by line,                    *)
(*   - rebuilds the observed global state (obs, dlog, dsnaps),              *)
(*   - maintains event-derived ghost state (leaders, agreed, grants, ...),  *)
(*   - evaluates every property predicate on every state/step (VIOL lines), *)
(*   - evaluates the handler operators of RaftOps on every handled RPC and  *)
(*     compares with what the code did (NONCONF lines, informational).      *)
(* Several traces are concatenated in one file; a "reset" line starts each. *)
(***************************************************************************)
EXTENDS RaftOps, Json, IOUtils

Trace  == ndJsonDeserialize(IOEnv.VERIF_TRACE)
NLines == Len(Trace)

VARIABLES
  l,        \* next line to consume
  trno,     \* number of the current trace in the file
  servers,  \* set of server ids of the current trace
  tab,      \* configuration table: name -> [server -> suffrage]
  params,   \* run parameters from the header
  obs,      \* [server -> record]   last observed projection of each server
  dlog,     \* [server -> log function]  durable log
  dsnaps,   \* [server -> sequence of snapshot records, newest first]
  leaders,  \* ghost: set of <<server, term>> that became leader
  agreed,   \* ghost: index -> entry committed by the omniscient definition
  grants,   \* ghost: set of <<voter, term, candidate>>
  pendVT,   \* ghost: [server -> last value written to LastVoteTerm]
  hpend,    \* [server -> sequence of handle lines not yet matched with a state line]
  fsmLast,  \* ghost: [server -> last index handed to its FSM in this epoch]
  fsmOpen,  \* ghost: [server -> <<idx, term>> of the snapshot last opened]
  bases,    \* ghost: set of [idx, content] user-restore baselines (initially {[idx 0, <<>>]})
  everSeen, \* ghost: payload ids ever stored in any log
  opsInv,   \* ghost: op id -> invoke line (+ line number)
  acked,    \* ghost: sequence of <<op id, index, return line no>> for successful applies
  burned,   \* ghost: indexes burned by user restores
  nviol, nnonconf, nsteps

vars == <<l, trno, servers, tab, params, obs, dlog, dsnaps, leaders, agreed, grants, pendVT, hpend,
          fsmLast, fsmOpen, bases, everSeen, opsInv, acked, burned, nviol, nnonconf, nsteps>>

Has(r, f) == f \in DOMAIN r
EmptyFn == [x \in {} |-> 0]

EmptyNode == [up |-> FALSE, inc |-> 0, ct |-> 0, vt |-> 0, vc |-> "", dcommit |-> 0, role |-> "F", term |-> 0,
              leader |-> "", commit |-> 0, applied |-> 0, last |-> 0, llog |-> <<0, 0>>, lsnap |-> <<0, 0>>,
              cc |-> NoCfg, cci |-> 0, cl |-> NoCfg, cli |-> 0, xfer |-> FALSE, fsmn |-> 0]

Merge(old, new) ==
  [k \in (DOMAIN old) \cup ((DOMAIN new) \ {"log", "snaps"}) |-> IF k \in DOMAIN new THEN new[k] ELSE old[k]]

SegFn(sg) == [i \in sg.lo..(sg.lo + Len(sg.es) - 1) |-> sg.es[i - sg.lo + 1]]
RECURSIVE SegsFn(_, _)
SegsFn(segs, k) == IF k > Len(segs) THEN EmptyFn ELSE SegFn(segs[k]) @@ SegsFn(segs, k + 1)
LogOf(lj) == SegsFn(lj.segs, 1)

SeqToSet(s) == {s[i] : i \in 1..Len(s)}

-----------------------------------------------------------------------------
(* reporting *)
Say(kind, prop, pred, detail) ==
  PrintT(kind \o "|" \o prop \o "|" \o pred \o "|" \o ToString(trno) \o "|" \o ToString(l) \o "|" \o ToString(detail))

\* V is a set of <<prop, pred, detail>>
ReportV(V) == \A v \in V : Say("VIOL", v[1], v[2], v[3])
ReportN(V) == \A v \in V : Say("NONCONF", v[1], v[2], v[3])

-----------------------------------------------------------------------------
(* durable-state helpers over explicit arguments (so they work on primed values) *)
SnapIdxOf(sn)  == IF Len(sn) = 0 THEN 0 ELSE sn[1].idx
SnapTermOf(sn) == IF Len(sn) = 0 THEN 0 ELSE sn[1].term
DurableLast(lg, sn) == Max(LogLast(lg), SnapIdxOf(sn))

NoEntry == <<-1, "none", "none">>
EntryOf(lg, ag, i) == IF i \in DOMAIN lg THEN lg[i] ELSE IF i \in DOMAIN ag THEN ag[i] ELSE NoEntry

\* does voter v (log lv, snapshots sv) durably hold leader log ll through j
HoldsThrough(lv, sv, ll, ag, j) ==
  \A i \in 1..j : \/ i <= SnapIdxOf(sv)
                  \/ (i \in DOMAIN lv /\ lv[i] = EntryOf(ll, ag, i))

\* omniscient commit definition on a global state (o, dl, ds)
CommittedBy(o, dl, ds, ag, ld) ==
  LET T  == o[ld].term
      vs == Voters(tab, o[ld].cl)
      J  == {j \in DOMAIN dl[ld] : dl[ld][j][1] = T
               /\ 2 * Cardinality({v \in vs : v \in servers /\ HoldsThrough(dl[v], ds[v], dl[ld], ag, j)}) > Cardinality(vs)}
      jm == MaxSet(J)
  IN IF J = {} THEN EmptyFn ELSE [i \in {k \in DOMAIN dl[ld] : k <= jm} |-> dl[ld][i]]

RECURSIVE FoldCommitted(_, _, _, _, _)
FoldCommitted(o, dl, ds, ag, S) ==
  IF S = {} THEN ag
  ELSE LET ld == CHOOSE x \in S : TRUE
           c  == CommittedBy(o, dl, ds, ag, ld)
       IN FoldCommitted(o, dl, ds, c @@ ag, S \ {ld})

ActiveLeaders(o) == {n \in servers : o[n].up /\ o[n].role = "L"}

\* entries newly found committed that contradict what was agreed before (C03)
AgreedConflicts(o, dl, ds, ag) ==
  UNION { LET c == CommittedBy(o, dl, ds, ag, ld)
          IN {<<"C03", "AgreedStable", <<ld, i, c[i], ag[i]>>>> : i \in {k \in DOMAIN c : k \in DOMAIN ag /\ ag[k] # c[k]}}
        : ld \in ActiveLeaders(o) }

-----------------------------------------------------------------------------
(* C04 predicates *)
LogMatchingPair(la, lb) ==
  \A i \in (DOMAIN la) \cap (DOMAIN lb) :
     la[i][1] = lb[i][1] => \A k \in (DOMAIN la) \cap (DOMAIN lb) : k <= i => la[k] = lb[k]
TermsMonotone(lg) == \A i, j \in DOMAIN lg : i < j => lg[i][1] <= lg[j][1]

\* step predicates on a handled AppendEntries (preLog, request, postLog, response)
AESuccessOK(m, postLog, resp) ==
  resp.ok => \A k \in 1..Len(m.entries) :
               AEIdx(m.entries[k]) \in DOMAIN postLog /\ postLog[AEIdx(m.entries[k])] = AEEnt(m.entries[k])
AETruncateOK(preLog, m, postLog, snapIdxPost) ==
  LET gone  == {i \in DOMAIN preLog : i > snapIdxPost /\ (i \notin DOMAIN postLog \/ postLog[i] # preLog[i])}
      confl == {AEIdx(m.entries[k]) : k \in {q \in 1..Len(m.entries) :
                   AEIdx(m.entries[q]) \in DOMAIN preLog /\ preLog[AEIdx(m.entries[q])][1] # m.entries[q][2]}}
  IN gone # {} => (confl # {} /\ \A i \in gone : i >= MinSet(confl))

-----------------------------------------------------------------------------
(* node record for RaftOps handlers, from the observed state *)
NodeRec(o, lg) == [term |-> o.term, ct |-> o.ct, role |-> o.role, leader |-> o.leader, vt |-> o.vt, vc |-> o.vc,
                   log |-> lg, llog |-> o.llog, lsnap |-> o.lsnap, commit |-> o.commit, applied |-> o.applied,
                   cl |-> o.cl, cli |-> o.cli, cc |-> o.cc, cci |-> o.cci, xfer |-> o.xfer]
CmpFields == {"term", "ct", "role", "leader", "vt", "vc", "llog", "lsnap", "commit", "applied", "cl", "cli", "cc", "cci"}
DiffFields(p, o, lg) == {f \in CmpFields : p[f] # o[f]} \cup (IF p.log # lg THEN {"log"} ELSE {})

AEReq(q) == [term |-> q.term, leader |-> q.leader, prev |-> q.prev, prevterm |-> q.prevterm, commit |-> q.commit, entries |-> q.entries]

-----------------------------------------------------------------------------
Init ==
  /\ l = 1 /\ trno = 0 /\ servers = {} /\ tab = EmptyFn /\ params = EmptyFn
  /\ obs = EmptyFn /\ dlog = EmptyFn /\ dsnaps = EmptyFn
  /\ leaders = {} /\ agreed = EmptyFn /\ grants = {} /\ pendVT = EmptyFn /\ hpend = EmptyFn
  /\ fsmLast = EmptyFn /\ fsmOpen = EmptyFn /\ bases = {} /\ everSeen = {} /\ opsInv = EmptyFn /\ acked = <<>>
  /\ burned = {} /\ nviol = 0 /\ nnonconf = 0 /\ nsteps = 0

Count(V, N) == /\ nviol' = nviol + Cardinality(V) /\ nnonconf' = nnonconf + Cardinality(N) /\ nsteps' = nsteps + 1
Quiet == Count({}, {})

DoReset(ln) ==
  LET S == SeqToSet(ln.servers) IN
  /\ trno' = trno + 1 /\ servers' = S /\ tab' = ln.cfgtab /\ params' = ln.params
  /\ obs' = [n \in S |-> EmptyNode] /\ dlog' = [n \in S |-> EmptyFn] /\ dsnaps' = [n \in S |-> <<>>]
  /\ leaders' = {} /\ agreed' = EmptyFn /\ grants' = {} /\ pendVT' = [n \in S |-> 0] /\ hpend' = [n \in S |-> <<>>]
  /\ fsmLast' = [n \in S |-> 0] /\ fsmOpen' = [n \in S |-> <<0, 0>>] /\ bases' = {[idx |-> 0, content |-> <<>>]}
  /\ everSeen' = {} /\ opsInv' = EmptyFn /\ acked' = <<>> /\ burned' = {}
  /\ Quiet

UnchangedGhosts == UNCHANGED <<leaders, grants, pendVT, fsmLast, fsmOpen, bases, opsInv, acked, burned>>
UnchangedHdr == UNCHANGED <<trno, servers, tab, params>>

(* ---- a state line (also crash / down lines): merge the projection, update agreed, judge ---- *)
StepPreds(n, h, pre, preLog, post, postLog, postSn) ==
  \* a repeated grant to the same candidate in the same term is the same vote, not a new one
  LET regrant == h.kind = "rv" /\ h.regrant IN
  IF h.kind \in {"ae", "hb"} /\ Has(h, "resp") THEN
      (IF AESuccessOK(AEReq(h.req), postLog, h.resp) THEN {} ELSE {<<"C04", "AESuccess", <<n, h.id>>>>})
      \cup (IF AETruncateOK(preLog, AEReq(h.req), postLog, SnapIdxOf(postSn)) THEN {} ELSE {<<"C04", "AETruncate", <<n, h.id>>>>})
  ELSE IF h.kind = "rv" /\ Has(h, "resp") /\ h.resp.granted THEN
      (IF UpToDate(h.req, LastEntry(pre)) \/ regrant THEN {} ELSE {<<"C06", "GrantNotUpToDate", <<n, h.id, h.req, LastEntry(pre)>>>>})
      \cup (IF pre.cl = NoCfg \/ IsVoter(tab, pre.cl, h.req.cand) THEN {} ELSE {<<"C06", "GrantNonVoter", <<n, h.id>>>>})
      \cup (IF h.req.term >= pre.term THEN {} ELSE {<<"C06", "GrantOldTerm", <<n, h.id>>>>})
      \cup (IF post.vt = h.req.term /\ post.vc = h.req.cand THEN {} ELSE {<<"C06", "GrantNotDurable", <<n, h.id, post.vt, post.vc>>>>})
  ELSE IF h.kind = "pv" /\ Has(h, "resp") THEN
      (IF post.ct = pre.ct /\ post.vt = pre.vt /\ post.vc = pre.vc /\ post.role = pre.role /\ post.term = pre.term
       THEN {} ELSE {<<"C06", "PreVoteChangedState", <<n, h.id>>>>})
  ELSE {}

Conformance(n, h, pre, preLog, post, postLog) ==
  IF ~Has(h, "resp") THEN {}
  ELSE IF h.kind \in {"ae", "hb"} THEN
     LET p == AEHandle(NodeRec(pre, preLog), AEReq(h.req))
         d == DiffFields(p.st, post, postLog) \cup (IF p.resp # h.resp THEN {"resp"} ELSE {})
     IN IF d = {} THEN {} ELSE {<<"AE", "handler", <<n, h.id, d>>>>}
  ELSE IF h.kind = "rv" THEN
     LET p == RVHandle(NodeRec(pre, preLog), h.req, tab)
         d == DiffFields(p.st, post, postLog) \cup (IF p.resp # h.resp THEN {"resp"} ELSE {})
     IN IF d = {} THEN {} ELSE {<<"RV", "handler", <<n, h.id, d>>>>}
  ELSE IF h.kind = "pv" THEN
     LET p == PVHandle(NodeRec(pre, preLog), h.req, tab)
     IN IF p = h.resp THEN {} ELSE {<<"PV", "handler", <<n, h.id, p, h.resp>>>>}
  ELSE IF h.kind = "is" THEN
     LET p == ISHandle(NodeRec(pre, preLog), h.req, params.mono, params.trailing)
         d == DiffFields(p.st, post, postLog) \cup (IF p.resp # h.resp THEN {"resp"} ELSE {})
     IN IF d = {} THEN {} ELSE {<<"IS", "handler", <<n, h.id, d>>>>}
  ELSE {}

DoState(ln) ==
  LET n      == ln.n
      st     == ln.st
      pre    == obs[n]
      post   == Merge(pre, st)
      preLog == dlog[n]
      postLog == IF Has(st, "log") THEN LogOf(st.log) ELSE preLog
      preSn  == dsnaps[n]
      postSn == IF Has(st, "snaps") THEN st.snaps ELSE preSn
      o2     == [obs EXCEPT ![n] = post]
      dl2    == [dlog EXCEPT ![n] = postLog]
      ds2    == [dsnaps EXCEPT ![n] = postSn]
      dirty  == Has(st, "log") \/ Has(st, "snaps") \/ post.role # pre.role \/ post.cl # pre.cl \/ post.up # pre.up
      conf   == IF dirty THEN AgreedConflicts(o2, dl2, ds2, agreed) ELSE {}
      ag2    == IF dirty THEN FoldCommitted(o2, dl2, ds2, agreed, ActiveLeaders(o2)) ELSE agreed
      sameInc == post.inc = pre.inc /\ pre.up /\ post.up
      \* ---- predicates
      vTerm  == (IF post.ct >= pre.ct THEN {} ELSE {<<"C06", "DurableTermDecreased", <<n, pre.ct, post.ct>>>>})
                \cup (IF sameInc /\ post.term < pre.term THEN {<<"C06", "TermDecreased", <<n, pre.term, post.term>>>>} ELSE {})
                \cup (IF post.up /\ post.term # post.ct THEN {<<"C06", "TermNotDurable", <<n, post.term, post.ct>>>>} ELSE {})
      vCommit == (IF post.up /\ post.commit > post.last THEN {<<"C05", "CommitBeyondLast", <<n, post.commit, post.last>>>>} ELSE {})
                 \cup (IF sameInc /\ post.commit < pre.commit THEN {<<"C05", "CommitDecreased", <<n, pre.commit, post.commit>>>>} ELSE {})
                 \cup (IF post.up
                       THEN {<<"C05", "CommitNotAgreed", <<n, i>>>> :
                               i \in {k \in ((IF sameInc THEN pre.commit ELSE 0) + 1)..post.commit :
                                        k \notin burned /\ (k \notin DOMAIN ag2 \/ (k \in DOMAIN postLog /\ postLog[k] # ag2[k]))}}
                       ELSE {})
      vLog   == IF ~Has(st, "log") THEN {} ELSE
                (IF TermsMonotone(postLog) THEN {} ELSE {<<"C04", "TermsNotMonotone", <<n>>>>})
                \cup {<<"C04", "LogMatching", <<n, m>>>> : m \in {x \in servers \ {n} : ~LogMatchingPair(postLog, dlog[x])}}
                \cup {<<"C03", "AgreedEntryRewritten", <<n, i, preLog[i], postLog[i]>>>> :
                        i \in {k \in DOMAIN agreed : k \in DOMAIN preLog /\ preLog[k] = agreed[k] /\ k \in DOMAIN postLog /\ postLog[k] # preLog[k]}}
                \cup {<<"C03", "AgreedEntryTruncated", <<n, i>>>> :
                        i \in {k \in DOMAIN agreed : k \in DOMAIN preLog /\ preLog[k] = agreed[k] /\ k \notin DOMAIN postLog /\ k > SnapIdxOf(postSn)}}
      vHole  == IF ~(Has(st, "log") \/ Has(st, "snaps")) THEN {} ELSE
                {<<"C11", "Hole", <<n, i>>>> : i \in {k \in (SnapIdxOf(postSn) + 1)..DurableLast(postLog, postSn) : k \notin DOMAIN postLog}}
      vLast  == IF post.up /\ post.last > DurableLast(postLog, postSn)
                THEN {<<"C11", "ReportedBeyondDurable", <<n, post.last, DurableLast(postLog, postSn)>>>>} ELSE {}
      hs     == IF ln.ev = "state" THEN hpend[n] ELSE <<>>
      clean  == Has(ln, "clean") /\ ln.clean
      vStep  == IF Len(hs) = 1 /\ clean THEN StepPreds(n, hs[1], pre, preLog, post, postLog, postSn) ELSE {}
      nc     == IF Len(hs) = 1 /\ clean /\ pre.up /\ post.up THEN Conformance(n, hs[1], pre, preLog, post, postLog) ELSE {}
      V      == conf \cup vTerm \cup vCommit \cup vLog \cup vHole \cup vLast \cup vStep
  IN
  /\ obs' = o2 /\ dlog' = dl2 /\ dsnaps' = ds2 /\ agreed' = ag2
  /\ hpend' = [hpend EXCEPT ![n] = <<>>]
  /\ everSeen' = IF Has(st, "log") THEN everSeen \cup {postLog[i][3] : i \in DOMAIN postLog} ELSE everSeen
  /\ ReportV(V) /\ ReportN(nc) /\ Count(V, nc)
  /\ UNCHANGED <<leaders, grants, pendVT, fsmLast, fsmOpen, bases, opsInv, acked, burned>>
  /\ UnchangedHdr

DoRole(ln) ==
  LET n == ln.n
      V == IF ln.role # "L" THEN {} ELSE
           {<<"C01", "TwoLeadersInTerm", <<n, x[1], ln.term>>>> : x \in {y \in leaders : y[2] = ln.term /\ y[1] # n}}
           \cup {<<"C03", "LeaderIncomplete", <<n, ln.term, i>>>> :
                   i \in {k \in DOMAIN agreed : k \notin burned /\ k > SnapIdxOf(dsnaps[n]) /\ ~(k \in DOMAIN dlog[n] /\ dlog[n][k] = agreed[k])}}
           \cup (IF IsVoter(tab, obs[n].cl, n) THEN {} ELSE {<<"C07", "NonVoterElected", <<n, ln.term, obs[n].cl>>>>})
  IN
  /\ leaders' = IF ln.role = "L" THEN leaders \cup {<<n, ln.term>>} ELSE leaders
  /\ ReportV(V) /\ Count(V, {})
  /\ UNCHANGED <<obs, dlog, dsnaps, agreed, grants, pendVT, hpend, fsmLast, fsmOpen, bases, everSeen, opsInv, acked, burned>>
  /\ UnchangedHdr

DoSend(ln) ==
  LET n == ln.n
      V == IF ln.kind \in {"ae", "hb", "is"} /\ <<n, ln.req.term>> \notin leaders
           THEN {<<"C01", "ActsAsLeaderWithoutWinning", <<n, ln.kind, ln.req.term>>>>} ELSE {}
  IN /\ ReportV(V) /\ Count(V, {})
     /\ UNCHANGED <<obs, dlog, dsnaps, agreed, leaders, grants, pendVT, hpend, fsmLast, fsmOpen, bases, everSeen, opsInv, acked, burned>>
     /\ UnchangedHdr

DoHandle(ln) ==
  LET n == ln.n
      g == IF ln.kind = "rv" /\ Has(ln, "resp") /\ ln.resp.granted THEN {<<n, ln.req.term, ln.req.cand>>} ELSE {}
      V == {<<"C06", "TwoVotesInTerm", <<n, x[2], x[3], ln.req.cand>>>> :
              x \in {y \in grants : g # {} /\ y[1] = n /\ y[2] = ln.req.term /\ y[3] # ln.req.cand}}
  IN /\ hpend' = [hpend EXCEPT ![n] = Append(@, [regrant |-> (g # {} /\ g \subseteq grants)] @@ ln)]
     /\ grants' = grants \cup g
     /\ ReportV(V) /\ Count(V, {})
     /\ UNCHANGED <<obs, dlog, dsnaps, agreed, leaders, pendVT, fsmLast, fsmOpen, bases, everSeen, opsInv, acked, burned>>
     /\ UnchangedHdr

DoStore(ln) ==
  LET n == ln.n
      isVT == ln.op = "stableset" /\ Has(ln, "key") /\ ln.key = "LastVoteTerm" /\ Has(ln, "ival")
      isVC == ln.op = "stableset" /\ Has(ln, "key") /\ ln.key = "LastVoteCand" /\ Has(ln, "sval")
      g  == IF isVC /\ ln.sval = n THEN {<<n, pendVT[n], n>>} ELSE {}
      V  == {<<"C06", "TwoVotesInTerm", <<n, x[2], x[3], n>>>> :
               x \in {y \in grants : g # {} /\ y[1] = n /\ y[2] = pendVT[n] /\ y[3] # n}}
  IN /\ pendVT' = IF isVT THEN [pendVT EXCEPT ![n] = ln.ival] ELSE pendVT
     /\ grants' = grants \cup g
     /\ ReportV(V) /\ Count(V, {})
     /\ UNCHANGED <<obs, dlog, dsnaps, agreed, leaders, hpend, fsmLast, fsmOpen, bases, everSeen, opsInv, acked, burned>>
     /\ UnchangedHdr

CmdIds(ag, lo, hi) ==   \* ids of the command entries of ag in (lo, hi], in index order, as a sequence
  LET RECURSIVE go(_)
      go(i) == IF i > hi THEN <<>>
               ELSE IF i \in DOMAIN ag /\ ag[i][2] = "cmd" THEN <<ag[i][3]>> \o go(i + 1) ELSE go(i + 1)
  IN go(lo + 1)

\* snapshot / restore content at index i is faithful if it is some baseline's content followed by the
\* agreed commands above that baseline, and every index in between is agreed (or burned)
ContentFaithful(content, i, ag) ==
  \E b \in bases : /\ b.idx <= i
                   /\ \A k \in (b.idx + 1)..i : k \in DOMAIN ag \/ k \in burned
                   /\ content = b.content \o CmdIds(ag, b.idx, i)

DoFsm(ln) ==
  LET n == ln.n IN
  IF ln.op = "apply" THEN
    LET i == ln.idx
        e == <<ln.term, ln.ty, ln.id>>
        V == (IF i \in DOMAIN agreed /\ agreed[i] = e THEN {} ELSE {<<"C02", "AppliedNotAgreed", <<n, i, e>>>>})
             \cup (IF i > fsmLast[n] THEN {} ELSE {<<"C02", "ApplyOutOfOrder", <<n, i, fsmLast[n]>>>>})
             \cup {<<"C02", "SkippedCommand", <<n, k>>>> :
                     k \in {j \in (fsmLast[n] + 1)..(i - 1) : j \notin burned /\ (j \notin DOMAIN agreed \/ agreed[j][2] = "cmd")}}
    IN /\ fsmLast' = [fsmLast EXCEPT ![n] = Max(@, i)]
       /\ ReportV(V) /\ Count(V, {})
       /\ UNCHANGED <<obs, dlog, dsnaps, agreed, leaders, grants, pendVT, hpend, fsmOpen, bases, everSeen, opsInv, acked, burned>>
       /\ UnchangedHdr
  ELSE IF ln.op = "restore" THEN
    LET i == fsmOpen[n][1]
        V == IF ContentFaithful(ln.content, i, agreed) THEN {} ELSE {<<"C02", "RestoreNotAgreedState", <<n, i, ln.content>>>>}
    IN /\ fsmLast' = [fsmLast EXCEPT ![n] = i]
       /\ ReportV(V) /\ Count(V, {})
       /\ UNCHANGED <<obs, dlog, dsnaps, agreed, leaders, grants, pendVT, hpend, fsmOpen, bases, everSeen, opsInv, acked, burned>>
       /\ UnchangedHdr
  ELSE /\ Quiet /\ UNCHANGED <<obs, dlog, dsnaps, agreed, leaders, grants, pendVT, hpend, fsmLast, fsmOpen, bases, everSeen, opsInv, acked, burned>>
       /\ UnchangedHdr

DoSnap(ln) ==
  LET n == ln.n IN
  IF ln.op = "open" THEN
     /\ fsmOpen' = [fsmOpen EXCEPT ![n] = <<ln.idx, ln.term>>]
     /\ Quiet /\ UNCHANGED <<obs, dlog, dsnaps, agreed, leaders, grants, pendVT, hpend, fsmLast, bases, everSeen, opsInv, acked, burned>>
     /\ UnchangedHdr
  ELSE IF ln.op = "close" THEN
     LET i == ln.idx
         V == (IF ContentFaithful(ln.content, i, agreed) THEN {} ELSE {<<"C11", "SnapshotContentNotAgreed", <<n, i, ln.content>>>>})
              \cup (IF i \in DOMAIN agreed /\ agreed[i][1] # ln.term THEN {<<"C11", "SnapshotTermWrong", <<n, i, ln.term>>>>} ELSE {})
     IN /\ ReportV(V) /\ Count(V, {})
        /\ UNCHANGED <<obs, dlog, dsnaps, agreed, leaders, grants, pendVT, hpend, fsmLast, fsmOpen, bases, everSeen, opsInv, acked, burned>>
        /\ UnchangedHdr
  ELSE /\ Quiet /\ UNCHANGED <<obs, dlog, dsnaps, agreed, leaders, grants, pendVT, hpend, fsmLast, fsmOpen, bases, everSeen, opsInv, acked, burned>>
       /\ UnchangedHdr

DoRestart(ln) ==
  /\ fsmLast' = [fsmLast EXCEPT ![ln.n] = 0]
  /\ hpend' = [hpend EXCEPT ![ln.n] = <<>>]
  /\ Quiet /\ UNCHANGED <<obs, dlog, dsnaps, agreed, leaders, grants, pendVT, fsmOpen, bases, everSeen, opsInv, acked, burned>>
  /\ UnchangedHdr

DoOther(ln) ==
  /\ (IF ln.ev = "end" THEN PrintT("TRACE_END|" \o ToString(trno) \o "|" \o ToString(l) \o "|" \o ToString(nviol) \o "|" \o ToString(nnonconf)) ELSE TRUE)
  /\ Quiet /\ UNCHANGED <<obs, dlog, dsnaps, agreed, leaders, grants, pendVT, hpend, fsmLast, fsmOpen, bases, everSeen, opsInv, acked, burned>>
  /\ UnchangedHdr

Next ==
  /\ l <= NLines
  /\ l' = l + 1
  /\ LET ln == Trace[l] IN
     CASE ln.ev = "reset"   -> DoReset(ln)
       [] ln.ev \in {"state", "crash", "down"} -> DoState(ln)
       [] ln.ev = "role"    -> DoRole(ln)
       [] ln.ev = "send"    -> DoSend(ln)
       [] ln.ev = "dup"     -> DoOther(ln)
       [] ln.ev = "handle"  -> DoHandle(ln)
       [] ln.ev = "store"   -> DoStore(ln)
       [] ln.ev = "fsm"     -> DoFsm(ln)
       [] ln.ev = "snap"    -> DoSnap(ln)
       [] ln.ev = "restart" -> DoRestart(ln)
       [] OTHER             -> DoOther(ln)

Spec == Init /\ [][Next]_vars

\* acceptance: the whole file was consumed
Consumed == TLCGet("stats").diameter = NLines + 1
=============================================================================
