----------------------------- MODULE HRaftTrace -----------------------------
(***************************************************************************)
(* Trace specification: reads ndjson traces recorded from clusters of REAL  *)
(* hashicorp/raft nodes (harness/sim) and, line by line,                    *)
(*   - rebuilds the observed global state (obs, dlog, dsnaps),              *)
(*   - maintains event-derived ghost state g (leaders, agreed, grants, ...),*)
(*   - evaluates every property predicate on every state/step (VIOL lines), *)
(*   - evaluates the handler operators of RaftOps on every handled RPC and  *)
(*     compares with what the code did (NONCONF lines, informational).      *)
(* Several traces are concatenated in one file; a "reset" line starts each. *)
(* Ghost state is derived from EVENTS and LOGGED state only, never from the *)
(* specification's prediction of what the code should have done.            *)
(***************************************************************************)
EXTENDS RaftOps, Json, IOUtils

Trace  == ndJsonDeserialize(IOEnv.VERIF_TRACE)
NLines == Len(Trace)

VARIABLES
  l,        \* next line to consume
  hdr,      \* [trno, servers, tab, params]
  obs,      \* [server -> record]   last observed projection of each server
  dlog,     \* [server -> log function]  durable log
  dsnaps,   \* [server -> sequence of snapshot records, newest first]
  g,        \* record of ghosts, see GhostInit
  cnt       \* [viol, nonconf]

vars == <<l, hdr, obs, dlog, dsnaps, g, cnt>>

Has(r, f) == f \in DOMAIN r
EmptyFn == [x \in {} |-> 0]
servers == hdr.servers
tab     == hdr.tab
params  == hdr.params
trno    == hdr.trno
PvOff   == IF "pvoff" \in DOMAIN hdr.params THEN {hdr.params.pvoff[i] : i \in 1..Len(hdr.params.pvoff)} ELSE {}   \* servers running with PreVoteDisabled

EmptyNode == [up |-> FALSE, inc |-> 0, ct |-> 0, vt |-> 0, vc |-> "", dcommit |-> 0, role |-> "F", term |-> 0,
              leader |-> "", commit |-> 0, applied |-> 0, last |-> 0, llog |-> <<0, 0>>, lsnap |-> <<0, 0>>,
              cc |-> NoCfg, cci |-> 0, cl |-> NoCfg, cli |-> 0, xfer |-> FALSE, fsmn |-> 0]

Merge(old, new) ==
  [k \in (DOMAIN old) \cup ((DOMAIN new) \ {"log", "snaps"}) |-> IF k \in DOMAIN new THEN new[k] ELSE old[k]]

SegFn(sg) == [i \in sg.lo..(sg.lo + Len(sg.es) - 1) |-> sg.es[i - sg.lo + 1]]
RECURSIVE SegsFn(_, _)
SegsFn(segs, k) == IF k > Len(segs) THEN EmptyFn ELSE SegFn(segs[k]) @@ SegsFn(segs, k + 1)
LogOf(lj) == SegsFn(lj.segs, 1)

SeqToSet(s) == {s[i] : i \in 1..Len(s)}

GhostInit(S) ==
  [ leaders  |-> {},                      \* <<server, term>> that became leader (Observer, inline)
    agreed   |-> EmptyFn,                 \* index -> entry committed by the omniscient definition
    reported |-> EmptyFn,                 \* index -> entry that some server REPORTED committed (CommitIndex / FSM apply)
    grants   |-> {},                      \* <<voter, term, candidate>>
    dur      |-> [n \in S |-> <<0, 0, "">>],   \* durable <<CurrentTerm, LastVoteTerm, LastVoteCand>>, tracked write by write
    hpend    |-> [n \in S |-> <<>>],      \* handle lines not yet matched with a state line
    ginc     |-> EmptyFn,                 \* <<voter, term, candidate>> -> the voter's incarnation when it granted
    hbopen   |-> [n \in S |-> FALSE],     \* a heartbeat has been handed to n and its handler has not returned yet
    fprace   |-> [n \in S |-> FALSE],     \* a heartbeat was handled (fast path) while n's main goroutine is inside a store write
    fsmLast  |-> [n \in S |-> 0],         \* last index handed to the FSM in this epoch
    fsmOpen  |-> [n \in S |-> <<0, 0>>],  \* snapshot last opened
    bases    |-> {[idx |-> 0, content |-> <<>>]},   \* FSM-content baselines (user restores add to it)
    burned   |-> {},                      \* indexes burned by user restores
    everSeen |-> {},                      \* payload ids ever stored in any log
    failed   |-> {},                      \* payload ids whose Apply definitely failed
    inv      |-> EmptyFn,                 \* op id -> [line, t, node, up, term]
    acked    |-> {},                      \* <<op id, index, return line>> of successful applies
    lastAck  |-> EmptyFn,
    lastAckR |-> EmptyFn,                 \* <<leader, term, follower>> -> line at which the leader RECEIVED the last successful response                 \* <<leader, term, follower>> -> line of the last successful AE/HB/IS handling
    contact  |-> EmptyFn,                 \* <<leader, follower>> -> time (us) of the last response received
    ish      |-> EmptyFn,                 \* InstallSnapshot rpc id -> <<follower, snapshot index>> once handled successfully
    isrep    |-> [n \in S |-> <<0, 0>>],  \* <<snapshot index, consecutive installs without progress>>
    blocked  |-> {},                      \* unordered pairs that cannot communicate
    notif    |-> [n \in S |-> <<>>],      \* values consumed from NotifyCh, this incarnation
    trans    |-> [n \in S |-> <<>>],      \* leadership transitions (TRUE gain / FALSE loss), this incarnation
    pvGrants |-> {},                      \* <<candidate, term, voter>>: pre-vote grants that reached the candidate
    slog     |-> [n \in S |-> EmptyFn],   \* durable log as of the last state line (dlog moves at store events)
    tn       |-> [n \in S |-> <<0, 0>>],  \* <<TimeoutNow requests handled, term increases made on their account>>
    seenTerm |-> [n \in S |-> 0],         \* highest term n was told about by somebody else
    starting |-> {},                      \* servers inside NewRaft (between `restart` and the `started` state line)
    rcur     |-> [n \in S |-> 0],         \* the user Restore call made last on n (op id, 0 = none)
    rres     |-> EmptyFn,                 \* Restore op id -> its result, once returned
    reff     |-> {},                      \* Restore calls that were carried out (their snapshot was written), whatever they return
    abOf     |-> EmptyFn,                 \* payload id -> the Restore call that aborted its Apply
    abOK     |-> {},                      \* payload ids aborted by a Restore that returned nil
    done     |-> {},                      \* client operations that have returned
    abApp    |-> {},                      \* <<server, index, id>>: aborted payloads that reached an FSM
    stopAt   |-> -1,                      \* time faults stopped, -1 if not
    probeOK  |-> FALSE ]

-----------------------------------------------------------------------------
(* reporting *)
Say(kind, prop, pred, detail) ==
  PrintT(kind \o "|" \o prop \o "|" \o pred \o "|" \o ToString(trno) \o "|" \o ToString(l) \o "|" \o ToString(detail))
ReportV(V) == \A v \in V : Say("VIOL", v[1], v[2], v[3])
ReportN(V) == \A v \in V : Say("NONCONF", v[1], v[2], v[3])
Count(V, N) == cnt' = [viol |-> cnt.viol + Cardinality(V), nonconf |-> cnt.nonconf + Cardinality(N)]
Judge(V, N) == ReportV(V) /\ ReportN(N) /\ Count(V, N)

-----------------------------------------------------------------------------
(* durable-state helpers over explicit arguments (so they work on primed values) *)
SnapIdxOf(sn)  == IF Len(sn) = 0 THEN 0 ELSE sn[1].idx
SnapTermOf(sn) == IF Len(sn) = 0 THEN 0 ELSE sn[1].term
DurableLast(lg, sn) == Max(LogLast(lg), SnapIdxOf(sn))

NoEntry == <<-1, "none", "none">>
EntryOf(lg, ag, i) == IF i \in DOMAIN lg THEN lg[i] ELSE IF i \in DOMAIN ag THEN ag[i] ELSE NoEntry

\* does voter v (log lv, snapshots sv) durably hold leader log ll through j
HoldsThrough(lv, sv, ll, ag, j) ==
  \A i \in 1..j : \/ i <= SnapIdxOf(sv)
                  \/ (i \in DOMAIN lv /\ lv[i] = EntryOf(ll, ag, i))

\* omniscient commit definition on a global state (o, dl, ds): entries of leader ld that are on a
\* strict majority of the VOTERS of its latest configuration, through an entry of its own term
\* (what a store still holds at or below its owner's snapshot index is superseded by the snapshot and is not part of
\* the leader's log: a prefix left behind by InstallSnapshot may never have been checked against any leader)
CommittedBy(o, dl, ds, ag, ld) ==
  LET T  == o[ld].term
      vs == Voters(tab, o[ld].cl)
      LL == [i \in {k \in DOMAIN dl[ld] : k > SnapIdxOf(ds[ld])} |-> dl[ld][i]]
      J  == {j \in DOMAIN LL : LL[j][1] = T
               /\ 2 * Cardinality({v \in vs : v \in servers /\ HoldsThrough(dl[v], ds[v], LL, ag, j)}) > Cardinality(vs)}
      jm == MaxSet(J)
  IN IF J = {} THEN EmptyFn ELSE [i \in {k \in DOMAIN LL : k <= jm} |-> LL[i]]

RECURSIVE FoldCommitted(_, _, _, _, _)
FoldCommitted(o, dl, ds, ag, S) ==
  IF S = {} THEN ag
  ELSE LET ld == CHOOSE x \in S : TRUE
           c  == CommittedBy(o, dl, ds, ag, ld)
       IN FoldCommitted(o, dl, ds, c @@ ag, S \ {ld})

ActiveLeaders(o) == {n \in servers : o[n].up /\ o[n].role = "L"}

AgreedConflicts(o, dl, ds, ag) ==
  UNION { LET c == CommittedBy(o, dl, ds, ag, ld)
          IN {<<"C03", "AgreedStable", <<ld, i, c[i], ag[i]>>>> : i \in {k \in DOMAIN c : k \in DOMAIN ag /\ ag[k] # c[k]}}
        : ld \in ActiveLeaders(o) }

-----------------------------------------------------------------------------
(* C04 predicates *)
\* entries at or below a server's snapshot index are superseded by the snapshot: the store may still hold them
\* (trailing logs, a prefix left behind by InstallSnapshot / user Restore) but they are no longer part of its log
LogMatchingPair(la, sa, lb, sb) ==
  LET D == {i \in (DOMAIN la) \cap (DOMAIN lb) : i > sa /\ i > sb}
  IN \A i \in D : la[i][1] = lb[i][1] => \A k \in D : k <= i => la[k] = lb[k]
TermsMonotone(lg) == \A i, j \in DOMAIN lg : i < j => lg[i][1] <= lg[j][1]

AESuccessOK(m, postLog, resp) ==
  resp.ok => \A k \in 1..Len(m.entries) :
               AEIdx(m.entries[k]) \in DOMAIN postLog /\ postLog[AEIdx(m.entries[k])] = AEEnt(m.entries[k])
AETruncateOK(preLog, m, postLog, snapIdxPost) ==
  LET gone  == {i \in DOMAIN preLog : i > snapIdxPost /\ (i \notin DOMAIN postLog \/ postLog[i] # preLog[i])}
      confl == {AEIdx(m.entries[k]) : k \in {q \in 1..Len(m.entries) :
                   AEIdx(m.entries[q]) \in DOMAIN preLog /\ preLog[AEIdx(m.entries[q])][1] # m.entries[q][2]}}
  IN gone # {} => (confl # {} /\ \A i \in gone : i >= MinSet(confl))

-----------------------------------------------------------------------------
(* node record for RaftOps handlers, from the observed state *)
NodeRec(o, lg) == [term |-> o.term, ct |-> o.ct, role |-> o.role, leader |-> o.leader, vt |-> o.vt, vc |-> o.vc,
                   log |-> lg, llog |-> o.llog, lsnap |-> o.lsnap, commit |-> o.commit, applied |-> o.applied,
                   cl |-> o.cl, cli |-> o.cli, cc |-> o.cc, cci |-> o.cci, xfer |-> o.xfer]
CmpFields == {"term", "ct", "role", "leader", "vt", "vc", "llog", "lsnap", "commit", "applied", "cl", "cli", "cc", "cci"}
DiffFields(p, o, lg) == {<<f, p[f], o[f]>> : f \in {x \in CmpFields : p[x] # o[x]}} \cup (IF p.log # lg THEN {<<"log">>} ELSE {})
AEReq(q) == [term |-> q.term, leader |-> q.leader, prev |-> q.prev, prevterm |-> q.prevterm, commit |-> q.commit, entries |-> q.entries]

CmdIds(ag, lo, hi) ==   \* ids of the command entries of ag in (lo, hi], in index order
  LET RECURSIVE go(_)
      go(i) == IF i > hi THEN <<>>
               ELSE IF i \in DOMAIN ag /\ ag[i][2] = "cmd" THEN <<ag[i][3]>> \o go(i + 1) ELSE go(i + 1)
  IN go(lo + 1)

\* content at index i is faithful if it is some baseline's content followed by the agreed commands
\* above that baseline, and every index in between is agreed (or burned)
ContentFaithful(content, i, ag, bs, bd) ==
  \E b \in bs : /\ b.idx <= i
                /\ \A k \in (b.idx + 1)..i : k \in DOMAIN ag \/ k <= MaxSet(bd)
                /\ content = b.content \o CmdIds(ag, b.idx, i)

\* newest configuration entry of the agreed history at or below i: <<index, name>> (<<0, NoCfg>> if none)
AgreedCfgAt(ag, i) ==
  LET C == {k \in DOMAIN ag : k <= i /\ ag[k][2] = "cfg"}
  IN IF C = {} THEN <<0, NoCfg>> ELSE <<MaxSet(C), ag[MaxSet(C)][3]>>

\* can n exchange messages with a quorum of the voters of its latest configuration
Reachable(a, b, bl) == a = b \/ ({a, b} \notin bl)
CanReachQuorum(n, o, bl) ==
  LET vs == Voters(tab, o[n].cl)
  IN 2 * Cardinality({v \in vs : v \in servers /\ (v = n \/ (o[v].up /\ Reachable(n, v, bl)))}) > Cardinality(vs)

-----------------------------------------------------------------------------
Init ==
  /\ l = 1
  /\ hdr = [trno |-> 0, servers |-> {}, tab |-> EmptyFn, params |-> EmptyFn, fam |-> ""]
  /\ obs = EmptyFn /\ dlog = EmptyFn /\ dsnaps = EmptyFn
  /\ g = GhostInit({})
  /\ cnt = [viol |-> 0, nonconf |-> 0]

Quiet == UNCHANGED cnt
Keep  == UNCHANGED <<hdr, obs, dlog, dsnaps>>

DoReset(ln) ==
  LET S == SeqToSet(ln.servers) IN
  /\ hdr' = [trno |-> hdr.trno + 1, servers |-> S, tab |-> ln.cfgtab, params |-> ln.params,
              fam |-> (IF Has(ln, "family") THEN ln.family ELSE "")]
  /\ obs' = [n \in S |-> EmptyNode] /\ dlog' = [n \in S |-> EmptyFn] /\ dsnaps' = [n \in S |-> <<>>]
  /\ g' = GhostInit(S)
  /\ Quiet

(* the configuration a durable image prescribes: the newest configuration entry above the snapshot, else the snapshot's *)
ExpCfg(lg, sn) ==
  LET si == SnapIdxOf(sn)
      C  == {k \in DOMAIN lg : k > si /\ lg[k][2] = "cfg"}
  IN IF C # {} THEN <<MaxSet(C), lg[MaxSet(C)][3]>>
     ELSE IF Len(sn) > 0 THEN <<sn[1].cfgidx, sn[1].cfg>> ELSE <<0, NoCfg>>

(* the configuration a server goes by is PHANTOM when its own durable image does not contain it: not the configuration
   entry at that index of its log, not its newest snapshot's, and not an entry that compaction may have removed (at or
   below the snapshot index). Votes are then judged against the configuration the image prescribes. *)
PhantomCfg(o, lg, sn) ==
  /\ o.cl # NoCfg
  /\ ~(o.cli \in DOMAIN lg /\ lg[o.cli][2] = "cfg" /\ lg[o.cli][3] = o.cl)
  /\ ~(Len(sn) > 0 /\ sn[1].cfgidx = o.cli /\ sn[1].cfg = o.cl)
  /\ o.cli > SnapIdxOf(sn)
VoterForVote(o, lg, sn, cand) ==
  /\ (o.cl = NoCfg \/ IsVoter(tab, o.cl, cand))
  /\ (~PhantomCfg(o, lg, sn) \/ ExpCfg(lg, sn)[2] = NoCfg \/ IsVoter(tab, ExpCfg(lg, sn)[2], cand))

(* ---- step predicates on one handled RPC (pre, request, post, response) ---- *)
StepPreds(n, h, pre, preLog, post, postLog, postSn) ==
  LET regrant == h.kind = "rv" /\ h.regrant IN
  IF h.kind \in {"ae", "hb"} /\ Has(h, "resp") THEN
      (IF AESuccessOK(AEReq(h.req), postLog, h.resp) THEN {} ELSE {<<"C04", "AESuccess", <<n, h.id>>>>})
      \cup (IF AETruncateOK(preLog, AEReq(h.req), postLog, SnapIdxOf(postSn)) THEN {} ELSE {<<"C04", "AETruncate", <<n, h.id>>>>})
      \* the configuration in force follows the log: after appending / truncating it is the newest configuration
      \* entry still in the log (a discarded, never committed configuration leaves no effect)
      \cup (IF <<pre.cli, pre.cl>> = ExpCfg(preLog, dsnaps[n]) /\ <<post.cli, post.cl>> # ExpCfg(postLog, postSn)
            THEN {<<"C07", "ConfigurationNotFromLog", <<n, h.id, <<post.cli, post.cl>>, ExpCfg(postLog, postSn)>>>>} ELSE {})
  ELSE IF h.kind = "rv" /\ Has(h, "resp") /\ h.resp.granted THEN
      (IF UpToDate(h.req, LastEntry(pre)) \/ regrant THEN {} ELSE {<<"C06", "GrantNotUpToDate", <<n, h.id, h.req, LastEntry(pre)>>>>})
      \cup (IF VoterForVote(pre, preLog, dsnaps[n], h.req.cand) THEN {} ELSE {<<"C06", "GrantNonVoter", <<n, h.id, pre.cl, ExpCfg(preLog, dsnaps[n])>>>>})
      \cup (IF h.req.term >= pre.term THEN {} ELSE {<<"C06", "GrantOldTerm", <<n, h.id>>>>})
      \cup (IF post.vt = h.req.term /\ post.vc = h.req.cand THEN {} ELSE {<<"C06", "GrantNotDurable", <<n, h.id, post.vt, post.vc>>>>})
  ELSE IF h.kind = "pv" /\ Has(h, "resp") THEN
      (IF post.ct = pre.ct /\ post.vt = pre.vt /\ post.vc = pre.vc /\ post.role = pre.role /\ post.term = pre.term
       THEN {} ELSE {<<"C06", "PreVoteChangedState", <<n, h.id>>>>})
      \* a pre-vote is only granted to a candidate that could win the real vote here and now: log at least as
      \* up-to-date, a voter, term not behind, and no other leader known (otherwise a stale server can disrupt)
      \cup (IF ~h.resp.granted \/ (UpToDate(h.req, LastEntry(pre)) /\ VoterForVote(pre, preLog, dsnaps[n], h.req.cand)
                                     /\ h.req.term >= pre.term /\ (pre.leader = "" \/ pre.leader = h.req.cand))
            THEN {} ELSE {<<"C14", "PreVoteGrantedWrongly", <<n, h.id, h.req, LastEntry(pre), pre.leader>>>>})
  ELSE {}

Conformance(n, h, pre, preLog, post, postLog) ==
  IF ~Has(h, "resp") THEN {}
  ELSE IF h.kind \in {"ae", "hb"} THEN
     LET p == AEHandle(NodeRec(pre, preLog), AEReq(h.req))
         d == DiffFields(p.st, post, postLog) \cup (IF p.resp # h.resp THEN {<<"resp", p.resp, h.resp>>} ELSE {})
     IN IF d = {} THEN {} ELSE {<<"AE", "handler", <<n, h.id, d>>>>}
  ELSE IF h.kind = "rv" THEN
     LET p == RVHandle(NodeRec(pre, preLog), h.req, tab)
         d == DiffFields(p.st, post, postLog) \cup (IF p.resp # h.resp THEN {<<"resp", p.resp, h.resp>>} ELSE {})
     IN IF d = {} THEN {} ELSE {<<"RV", "handler", <<n, h.id, d>>>>}
  ELSE IF h.kind = "pv" THEN
     LET p == PVHandle(NodeRec(pre, preLog), h.req, tab)
     IN IF p = h.resp THEN {} ELSE {<<"PV", "handler", <<n, h.id, p, h.resp>>>>}
  ELSE IF h.kind = "is" THEN
     LET p == ISHandle(NodeRec(pre, preLog), h.req, params.mono, params.trailing)
         d == DiffFields(p.st, post, postLog) \cup (IF p.resp # h.resp THEN {<<"resp", p.resp, h.resp>>} ELSE {})
     IN IF d = {} THEN {} ELSE {<<"IS", "handler", <<n, h.id, d>>>>}
  ELSE {}

(* ---- what a restart must produce from the durable image (C10) ---- *)
RestartPreds(n, pre, post, lg, sn) ==
  LET si    == SnapIdxOf(sn)
      expCl == ExpCfg(lg, sn)
      ll    == LogLast(lg)
      expLL == IF ll = 0 THEN <<0, 0>> ELSE <<ll, lg[ll][1]>>
      again == pre.inc > 0      \* not the first start: pre is the image left by the crash / shutdown
  IN (IF post.term = post.ct /\ (~again \/ post.ct = pre.ct) THEN {} ELSE {<<"C10", "RestartTerm", <<n, pre.ct, post.ct, post.term>>>>})
     \cup (IF ~again \/ (post.vt = pre.vt /\ post.vc = pre.vc) THEN {} ELSE {<<"C10", "RestartVote", <<n, pre.vt, pre.vc, post.vt, post.vc>>>>})
     \cup (IF post.llog = expLL THEN {} ELSE {<<"C10", "RestartLastLog", <<n, post.llog, expLL>>>>})
     \cup (IF post.lsnap = <<si, SnapTermOf(sn)>> THEN {} ELSE {<<"C10", "RestartLastSnapshot", <<n, post.lsnap, si>>>>})
     \cup (IF <<post.cli, post.cl>> = expCl THEN {} ELSE {<<"C10", "RestartConfiguration", <<n, <<post.cli, post.cl>>, expCl>>>>})
     \* the committed configuration it used before going down is still covered by its durable state (entry in the log, or
     \* at / below the snapshot): it must not come back with an older one
     \cup (IF again /\ post.cli < pre.cli /\ (pre.cli <= si \/ (pre.cli \in DOMAIN lg /\ lg[pre.cli][2] = "cfg"))
              /\ pre.cli \in DOMAIN g.agreed /\ g.agreed[pre.cli][2] = "cfg" /\ g.agreed[pre.cli][3] = pre.cl
           THEN {<<"C10", "RestartConfigurationRegressed", <<n, <<pre.cli, pre.cl>>, <<post.cli, post.cl>>, si>>>>} ELSE {})
     \cup (LET E == IF params.ct THEN Max(si, Min(post.dcommit, ll)) ELSE si     \* how far the FSM must have been fed
           IN IF params.norestore \/ (g.fsmLast[n] <= E /\ \A k \in DOMAIN lg : (k > si /\ k <= E /\ lg[k][2] = "cmd") => k <= g.fsmLast[n])
              THEN {} ELSE {<<"C10", "RestartFSMPosition", <<n, g.fsmLast[n], si, E>>>>})

\* n's entry at index i is what its leader p holds at or below p's own snapshot index (see DoFsm)
FromLeaderPrefix(n, p, i, lg) ==
  p \in servers /\ p # n /\ i \in DOMAIN lg /\ i \in DOMAIN dlog[p] /\ dlog[p][i] = lg[i] /\ i <= SnapIdxOf(dsnaps[p])

DoState(ln) ==
  LET n      == ln.n
      st     == ln.st
      pre    == obs[n]
      post   == Merge(pre, st)
      preLog == g.slog[n]
      postLog == IF Has(st, "log") THEN LogOf(st.log) ELSE dlog[n]
      vSync  == IF ~Has(st, "log") /\ dlog[n] # preLog /\ ln.ev = "state" /\ pre.up
                THEN {<<"HARNESS", "LogChangedWithoutProjection", n>>} ELSE {}
      preSn  == dsnaps[n]
      postSn == IF Has(st, "snaps") THEN st.snaps ELSE preSn
      o2     == [obs EXCEPT ![n] = post]
      dl2    == [dlog EXCEPT ![n] = postLog]
      ds2    == [dsnaps EXCEPT ![n] = postSn]
      agreed == g.agreed
      dirty  == Has(st, "log") \/ Has(st, "snaps") \/ post.role # pre.role \/ post.cl # pre.cl \/ post.up # pre.up
      conf   == IF dirty THEN AgreedConflicts(o2, dl2, ds2, agreed) ELSE {}
      ag2    == IF dirty THEN FoldCommitted(o2, dl2, ds2, agreed, ActiveLeaders(o2)) ELSE agreed
      newAg  == (DOMAIN ag2) \ (DOMAIN agreed)
      sameInc == post.inc = pre.inc /\ pre.up /\ post.up
      \* what this server now reports as committed through its CommitIndex (first report wins)
      newRep == IF post.up THEN [i \in {k \in ((IF sameInc THEN pre.commit ELSE 0) + 1)..post.commit :
                                           k \in DOMAIN postLog /\ k \notin DOMAIN g.reported /\ k > MaxSet(g.burned)} |-> postLog[i]]
                ELSE EmptyFn
      rep2   == g.reported @@ newRep
      known  == g.reported @@ agreed      \* committed as far as anybody was told, or by the omniscient definition
      started == ln.ev = "state" /\ Has(ln, "cause") /\ ln.cause = "started"
      \* ---- predicates
      \* finding 20: the heartbeat fast path adopted a newer term while the main goroutine was inside setCurrentTerm with an
      \* older one; when that write completes the term goes back. Identified by its history: a heartbeat handled while the
      \* main goroutine is parked in a store write, the decrease at the completion of that write.
      busyNow == Has(ln, "busy") /\ ln.busy
      \* (mirror image: the fast-path handler itself is the one inside the slow write of the term it adopts while the main
      \* goroutine handles a request of a newer term; the decrease when the heartbeat handler's write completes)
      fpr     == g.fprace[n] \/ (busyNow /\ ln.ev = "state" /\ \E k \in 1..Len(g.hpend[n]) : g.hpend[n][k].kind = "hb")
                 \/ (busyNow /\ ln.ev = "state" /\ g.hbopen[n] /\ Has(params, "hbfast") /\ params.hbfast)
      vTerm  == (IF post.ct >= pre.ct THEN {} ELSE {<<"C06", (IF fpr THEN "DurableTermDecreasedByFastPathRace" ELSE "DurableTermDecreased"), <<n, pre.ct, post.ct>>>>})
                \cup (IF sameInc /\ post.term < pre.term THEN {<<"C06", (IF fpr THEN "TermDecreasedByFastPathRace" ELSE "TermDecreased"), <<n, pre.term, post.term>>>>} ELSE {})
                \cup (IF post.up /\ post.term > post.ct THEN {<<"C06", "TermNotDurable", <<n, post.term, post.ct>>>>} ELSE {})
      vCommit == (IF post.up /\ post.commit > post.last THEN {<<"C05", "CommitBeyondLast", <<n, post.commit, post.last>>>>} ELSE {})
                 \cup (IF sameInc /\ post.commit < pre.commit THEN {<<"C05", "CommitDecreased", <<n, pre.commit, post.commit>>>>} ELSE {})
                 \cup (IF post.up
                       THEN {<<"C05", (IF FromLeaderPrefix(n, post.leader, i, postLog) THEN "CommitOverLeaderPrefixBelowSnapshot" ELSE "CommitNotAgreed"), <<n, i>>>> :
                               i \in {k \in ((IF sameInc THEN pre.commit ELSE 0) + 1)..post.commit :
                                        k > MaxSet(g.burned) /\ (k \notin DOMAIN ag2 \/
                                           (k > SnapIdxOf(postSn) /\ k \in DOMAIN postLog /\ postLog[k] # ag2[k]))}}
                       ELSE {})
      vLog   == IF ~Has(st, "log") THEN {} ELSE
                (IF TermsMonotone(postLog) THEN {} ELSE {<<"C04", "TermsNotMonotone", <<n>>>>})
                \cup {<<"C04", "LogMatching", <<n, m>>>> : m \in {x \in servers \ {n} : ~LogMatchingPair(postLog, SnapIdxOf(postSn), dlog[x], SnapIdxOf(dsnaps[x]))}}
                \cup {<<"C03", "CommittedEntryRewritten", <<n, i, preLog[i], postLog[i]>>>> :
                        i \in {k \in DOMAIN known : k \in DOMAIN preLog /\ preLog[k] = known[k] /\ k \in DOMAIN postLog /\ postLog[k] # preLog[k]}}
                \cup {<<"C03", "CommittedEntryTruncated", <<n, i>>>> :
                        i \in {k \in DOMAIN known : k \in DOMAIN preLog /\ preLog[k] = known[k] /\ k \notin DOMAIN postLog /\ k > SnapIdxOf(postSn)}}
                \cup (IF Cardinality({k \in DOMAIN postLog : postLog[k][2] = "cfg" /\ k \notin DOMAIN ag2 /\ k > SnapIdxOf(postSn)}) <= 1 THEN {}
                      ELSE {<<"C07", "TwoUncommittedConfigs", <<n, {k \in DOMAIN postLog : postLog[k][2] = "cfg" /\ k \notin DOMAIN ag2}>>>>})
                \cup {<<"C08", "FailedOpStored", <<n, postLog[k][3]>>>> : k \in {j \in DOMAIN postLog : postLog[j][3] \in g.failed}}
      vOnce  == {<<"C08", "CommittedTwice", <<i, ag2[i][3]>>>> :
                   i \in {k \in newAg : ag2[k][2] = "cmd" /\ \E j \in DOMAIN ag2 : j # k /\ ag2[j][2] = "cmd" /\ ag2[j][3] = ag2[k][3]}}
      vHole  == IF ~(Has(st, "log") \/ Has(st, "snaps")) THEN {} ELSE
                {<<"C11", "Hole", <<n, i>>>> : i \in {k \in (SnapIdxOf(postSn) + 1)..DurableLast(postLog, postSn) : k \notin DOMAIN postLog}}
      vLast  == IF post.up /\ ~Has(ln, "busy") /\ post.last > DurableLast(postLog, postSn)
                THEN {<<"C11", "ReportedBeyondDurable", <<n, post.last, DurableLast(postLog, postSn)>>>>} ELSE {}
      vLead  == IF post.up /\ post.role = "F" /\ post.leader # "" /\ <<post.leader, post.term>> \notin g.leaders
                THEN {<<"C18", "LeaderNeverLedThisTerm", <<n, post.leader, post.term>>>>} ELSE {}
      \* a self-initiated term increase (not learnt from anybody, not a leadership transfer) needs pre-vote
      \* grants for that term from a quorum of the server's voters -- which an isolated server cannot get
      \* (a TimeoutNow entitles the server to ONE election without pre-vote)
      byXfer == (pre.xfer \/ post.xfer) /\ g.tn[n][2] < g.tn[n][1]
      selfUp == post.ct > pre.ct /\ sameInc /\ post.ct > g.seenTerm[n]
      vInfl  == IF post.ct > pre.ct /\ sameInc /\ params.prevote /\ n \notin PvOff /\ ~byXfer /\ post.ct > g.seenTerm[n]
                   /\ Cardinality({v \in Voters(tab, pre.cl) : v = n \/ <<n, post.ct, v>> \in g.pvGrants}) < QuorumSize(tab, pre.cl)
                THEN {<<"C14", "TermRaisedWithoutPreVoteQuorum", <<n, pre.ct, post.ct, {x \in g.pvGrants : x[1] = n /\ x[2] = post.ct}>>>>} ELSE {}
      \* a server that has durably recorded itself as the candidate voted for in its current term has voted for itself
      selfV  == IF post.vc = n /\ post.vt = post.ct /\ post.vt > 0 /\ (post.vt # pre.vt \/ post.vc # pre.vc) /\ ~started
                THEN {<<n, post.vt, n>>} ELSE {}
      vSelf  == {<<"C06", "TwoVotesInTerm", <<n, x[2], x[3], n>>>> : x \in {y \in g.grants : selfV # {} /\ y[1] = n /\ y[2] = post.vt /\ y[3] # n}}
      vStart == IF started THEN RestartPreds(n, pre, post, postLog, postSn) ELSE {}
      hs     == IF ln.ev = "state" THEN g.hpend[n] ELSE <<>>
      clean  == Has(ln, "clean") /\ ln.clean
      vStep  == IF Len(hs) = 1 /\ clean THEN StepPreds(n, hs[1], pre, preLog, post, postLog, postSn) ELSE {}
      nc     == IF Len(hs) = 1 /\ clean /\ pre.up /\ post.up THEN Conformance(n, hs[1], pre, preLog, post, postLog) ELSE {}
      \* finding 14: a snapshot that does not reach beyond what was applied is installed all the same (the
      \* state machine, the applied index and the last snapshot move backwards, a monotonic store is wiped)
      vStale == IF Len(hs) = 1 /\ hs[1].kind = "is" /\ Has(hs[1], "resp") /\ hs[1].resp.ok /\ pre.up /\ sameInc
                   /\ (hs[1].req.idx < pre.applied \/ (hs[1].req.idx = pre.applied /\ pre.last > hs[1].req.idx))
                THEN {<<"C02", "StaleSnapshotInstalled", <<n, hs[1].req.idx, pre.applied, pre.last>>>>} ELSE {}
      \* a server is in leader state only in a term it won
      vLdr   == IF post.up /\ post.role = "L" /\ <<n, post.term>> \notin g.leaders
                THEN {<<"C01", "LeaderStateInTermNotWon", <<n, post.term>>>>} ELSE {}
      V      == vStale \cup vLdr \cup vSelf \cup vSync \cup conf \cup vTerm \cup vCommit \cup vLog \cup vOnce \cup vHole \cup vLast \cup vLead \cup vInfl \cup vStart \cup vStep
  IN
  /\ obs' = o2 /\ dlog' = dl2 /\ dsnaps' = ds2
  /\ g' = [g EXCEPT !.agreed = ag2, !.reported = rep2, !.hpend[n] = <<>>, !.slog[n] = postLog,
                    !.fprace[n] = busyNow /\ fpr /\ post.up,
                    !.starting = IF started THEN @ \ {n} ELSE @,
                    !.tn[n] = IF selfUp /\ byXfer THEN <<@[1], @[2] + 1>> ELSE IF ~sameInc THEN <<0, 0>> ELSE @,
                    !.dur[n] = <<post.ct, post.vt, post.vc>>,
                    \* the vote record of the image a server is FIRST started from is a vote it has cast
                    !.grants = (IF started /\ pre.inc = 0 /\ post.vc # "" THEN @ \cup {<<n, post.vt, post.vc>>} ELSE @) \cup selfV,
                    !.everSeen = IF Has(st, "log") THEN @ \cup {postLog[i][3] : i \in DOMAIN postLog} ELSE @]
  /\ Judge(V, nc)
  /\ UNCHANGED hdr

DoRole(ln) ==
  LET n == ln.n
      gained == ln.role = "L"
      lost   == ln.role # "L" /\ Len(g.trans[n]) > 0 /\ g.trans[n][Len(g.trans[n])]
      voters == Voters(tab, obs[n].cl)
      got    == {v \in voters : <<v, ln.term, n>> \in g.grants}
      V == IF ~gained THEN {} ELSE
           {<<"C01", "TwoLeadersInTerm", <<n, x[1], ln.term>>>> : x \in {y \in g.leaders : y[2] = ln.term /\ y[1] # n}}
           \cup (IF Cardinality(got) >= QuorumSize(tab, obs[n].cl) THEN {}
                 ELSE {<<"C01", "ElectedWithoutQuorum", <<n, ln.term, got, voters>>>>})
           \cup {<<"C03", "LeaderIncomplete", <<n, ln.term, i>>>> :
                   i \in {k \in DOMAIN (g.reported @@ g.agreed) : k > MaxSet(g.burned) /\ k > SnapIdxOf(dsnaps[n])
                                /\ ~(k \in DOMAIN dlog[n] /\ dlog[n][k] = (g.reported @@ g.agreed)[k])}}
           \cup (IF IsVoter(tab, obs[n].cl, n) THEN {} ELSE {<<"C07", "NonVoterElected", <<n, ln.term, obs[n].cl>>>>})
  IN
  /\ g' = [g EXCEPT !.leaders = IF gained THEN @ \cup {<<n, ln.term>>} ELSE @,
                    !.trans[n] = IF gained THEN Append(@, TRUE) ELSE IF lost THEN Append(@, FALSE) ELSE @,
                    !.contact = IF gained THEN [p \in {<<n, f>> : f \in servers} |-> ln.t] @@ @ ELSE @]
  /\ obs' = [obs EXCEPT ![n].role = ln.role, ![n].term = ln.term]
  /\ Judge(V, {}) /\ UNCHANGED <<hdr, dlog, dsnaps>>

DoSend(ln) ==
  LET n == ln.n
      V == IF ln.kind \in {"ae", "hb", "is"} /\ <<n, ln.req.term>> \notin g.leaders
           THEN {<<"C01", "ActsAsLeaderWithoutWinning", <<n, ln.kind, ln.req.term>>>>} ELSE {}
  IN Judge(V, {}) /\ Keep /\ UNCHANGED g

DoHandle(ln) ==
  LET n  == ln.n
      gr == IF ln.kind = "rv" /\ Has(ln, "resp") /\ ln.resp.granted THEN {<<n, ln.req.term, ln.req.cand>>} ELSE {}
      ok == ln.kind \in {"ae", "hb", "is"} /\ Has(ln, "resp") /\ ln.resp.ok
      dupd == Has(ln, "dup") /\ ln.dup     \* a duplicate injected by the network, not a transfer the leader repeated
      twice == {y \in g.grants : gr # {} /\ y[1] = n /\ y[2] = ln.req.term /\ y[3] # ln.req.cand}
      V  == {<<"C06", "TwoVotesInTerm", <<n, x[2], x[3], ln.req.cand>>>> : x \in twice}
            \* C10: the earlier vote was cast (and persisted) by an earlier incarnation: the restart lost it
            \cup {<<"C10", "RestartForgotVote", <<n, x[2], x[3], ln.req.cand>>>> :
                    x \in {y \in twice : y \in DOMAIN g.ginc /\ g.ginc[y] # obs[n].inc}}

  IN /\ g' = [g EXCEPT !.hpend[n] = Append(@, [regrant |-> (gr # {} /\ gr \subseteq g.grants)] @@ ln),
                       !.hbopen[n] = IF ln.kind = "hb" THEN FALSE ELSE @,
                       !.grants = @ \cup gr,
                       !.ginc = [y \in (gr \ DOMAIN @) |-> obs[n].inc] @@ @,
                       !.seenTerm[n] = IF ln.kind \in {"ae", "hb", "is", "rv"} THEN Max(@, ln.req.term) ELSE @,
                       !.tn[n] = IF ln.kind = "tn" THEN <<@[1] + 1, @[2]>> ELSE @,
                       !.lastAck = IF ok THEN [p \in {<<ln.src, ln.req.term, n>>} |-> l] @@ @ ELSE @,
                       \* an installation counts as a transfer the leader repeated only once the leader has SEEN it succeed
                       \* (DoReply): a lost response makes the leader try again, which is the fault's doing
                       !.ish = IF ln.kind = "is" /\ ok /\ ~dupd THEN [p \in {ln.id} |-> <<n, ln.req.idx>>] @@ @ ELSE @,
                       !.isrep[n] = IF ln.kind = "ae" /\ ok /\ Len(ln.req.entries) > 0 THEN <<0, 0>> ELSE @]
     /\ Judge(V, {}) /\ Keep

DoDeliver(ln) ==  \* a request was handed to ln.n: from now on it knows the sender's term
  /\ g' = [g EXCEPT !.seenTerm[ln.n] = IF ln.kind \in {"ae", "hb", "is", "rv"} THEN Max(@, ln.term) ELSE @,
                    !.hbopen[ln.n] = IF ln.kind = "hb" THEN TRUE ELSE @]
  /\ Quiet /\ Keep

DoReply(ln) ==   \* a response reached the caller ln.n from ln.dst
  LET acked == Has(ln, "resp") /\ ln.kind = "is" /\ ln.resp.ok /\ ln.id \in DOMAIN g.ish
      f     == g.ish[ln.id][1]
      idx   == g.ish[ln.id][2]
      rep2  == IF g.isrep[f][1] = idx THEN <<idx, g.isrep[f][2] + 1>> ELSE <<idx, 1>>
      V     == IF acked /\ rep2[2] >= 3 THEN {<<"C12", "SameSnapshotInstalledAgain", <<f, idx, rep2[2]>>>>} ELSE {}
  IN
  /\ g' = [g EXCEPT !.isrep = IF acked THEN [@ EXCEPT ![f] = rep2] ELSE @,
                    !.contact = IF Has(ln, "resp") /\ ln.kind \in {"ae", "hb", "is"}
                                THEN [p \in {<<ln.n, ln.dst>>} |-> ln.t] @@ @ ELSE @,
                    !.lastAckR = IF Has(ln, "resp") /\ ln.kind \in {"ae", "hb", "is"} /\ ln.resp.ok /\ ln.resp.term <= obs[ln.n].term
                                 THEN [p \in {<<ln.n, obs[ln.n].term, ln.dst>>} |-> l] @@ @ ELSE @,
                    !.pvGrants = IF Has(ln, "resp") /\ ln.kind = "pv" /\ ln.resp.granted THEN @ \cup {<<ln.n, ln.resp.term, ln.dst>>} ELSE @,
                    !.seenTerm[ln.n] = IF Has(ln, "resp") /\ (ln.kind \in {"ae", "hb", "is"} \/ (ln.kind \in {"rv", "pv"} /\ ~ln.resp.granted))
                                       THEN Max(@, ln.resp.term) ELSE @]
  /\ Judge(V, {}) /\ Keep

DoStore(ln) ==
  LET n == ln.n
      isVT == ln.op = "stableset" /\ Has(ln, "key") /\ ln.key = "LastVoteTerm" /\ Has(ln, "ival")
      isVC == ln.op = "stableset" /\ Has(ln, "key") /\ ln.key = "LastVoteCand" /\ Has(ln, "sval")
      isCT == ln.op = "stableset" /\ Has(ln, "key") /\ ln.key = "CurrentTerm" /\ Has(ln, "ival")
      d2 == IF isCT THEN <<ln.ival, g.dur[n][2], g.dur[n][3]>>
            ELSE IF isVT THEN <<g.dur[n][1], ln.ival, g.dur[n][3]>>
            ELSE IF isVC THEN <<g.dur[n][1], g.dur[n][2], ln.sval>> ELSE g.dur[n]
      \* the record now says: voted for myself in my current term
      gr == IF (isVT \/ isVC) /\ d2[3] = n /\ d2[2] = d2[1] /\ d2[2] > 0 THEN {<<n, d2[2], n>>} ELSE {}
      V  == {<<"C06", "TwoVotesInTerm", <<n, x[2], x[3], n>>>> : x \in {y \in g.grants : gr # {} /\ y[1] = n /\ y[2] = d2[2] /\ y[3] # n}}
      isSL == ln.op = "storelogs" /\ Has(ln, "entries")
      isDR == ln.op = "delrange" /\ ~Has(ln, "err")
      lg2  == IF isSL THEN [i \in {AEIdx(ln.entries[k]) : k \in 1..Len(ln.entries)} |->
                              AEEnt(ln.entries[CHOOSE k \in 1..Len(ln.entries) : AEIdx(ln.entries[k]) = i])] @@ dlog[n]
              ELSE IF isDR THEN DelRange(dlog[n], ln.min, ln.max) ELSE dlog[n]
      dl2  == [dlog EXCEPT ![n] = lg2]
      \* a leader uses a new configuration as soon as it has appended it (raft.go appendConfigurationEntry)
      cfgK == IF isSL /\ obs[n].up /\ obs[n].role = "L"
              THEN {k \in 1..Len(ln.entries) : ln.entries[k][3] = "cfg" /\ ln.entries[k][2] = obs[n].term} ELSE {}
      o2   == IF cfgK = {} THEN obs
              ELSE [obs EXCEPT ![n].cl = ln.entries[MaxSet(cfgK)][4], ![n].cli = ln.entries[MaxSet(cfgK)][1]]
      conf == IF isSL THEN AgreedConflicts(o2, dl2, dsnaps, g.agreed) ELSE {}
      \* the leader counts its own write under the configuration it had when it wrote (commitment.match in
      \* dispatchLogs precedes commitment.setConfiguration), then switches: both are "in force" at this instant
      ag1  == IF isSL THEN FoldCommitted(obs, dl2, dsnaps, g.agreed, ActiveLeaders(obs)) ELSE g.agreed
      ag2  == IF isSL THEN FoldCommitted(o2, dl2, dsnaps, ag1, ActiveLeaders(o2)) ELSE g.agreed
      \* every configuration a leader appends differs from its predecessor in the log by at most one voter
      vStepCfg == {<<"C07", "ConfigStepTooLarge", <<n, ln.entries[k][1], ExpCfg(dlog[n], dsnaps[n])[2], ln.entries[k][4]>>>> :
                     k \in {j \in cfgK : LET p == ExpCfg(dlog[n], dsnaps[n])[2]
                                              a == Voters(tab, p)
                                              b == Voters(tab, ln.entries[j][4])
                                          IN p # NoCfg /\ Cardinality((a \ b) \cup (b \ a)) > 1}}
      \* a leader appends a configuration only after an entry of its own term is committed - by the omniscient definition,
      \* whatever its own commit index says (a user Restore, for one, moves indexes without any acknowledgement)
      vOwnTerm == {<<"C07", "ConfigBeforeOwnTermCommit", <<n, ln.entries[k][1], obs[n].term>>>> :
                     k \in {j \in cfgK : ~\E i \in DOMAIN ag1 : ag1[i][1] = obs[n].term}}
      \* routine compaction removes only entries at or below the newest snapshot and leaves at least TrailingLogs entries
      vCompact == IF isDR /\ Has(ln, "by") /\ ln.by = "compact"
                          /\ \E k \in DOMAIN dlog[n] : ln.min <= k /\ k <= ln.max        \* it removes something
                  THEN (IF ln.max <= SnapIdxOf(dsnaps[n]) THEN {} ELSE {<<"C11", "CompactionBeyondSnapshot", <<n, ln.min, ln.max, SnapIdxOf(dsnaps[n])>>>>})
                       \cup (IF ln.max + params.trailing <= LogLast(dlog[n]) THEN {}     \* the last TrailingLogs indexes stay
                             ELSE {<<"C11", "CompactionKeptTooFew", <<n, ln.min, ln.max, LogLast(dlog[n]), params.trailing>>>>})
                  ELSE {}
  IN /\ g' = [g EXCEPT !.dur[n] = d2, !.grants = @ \cup gr, !.agreed = ag2]
     /\ dlog' = dl2 /\ obs' = o2
     /\ Judge(V \cup conf \cup vStepCfg \cup vOwnTerm \cup vCompact, {}) /\ UNCHANGED <<hdr, dsnaps>>

DoFsm(ln) ==
  LET n == ln.n IN
  IF ln.op = "apply" THEN
    LET i == ln.idx
        e == <<ln.term, ln.ty, ln.id>>
        \* finding "unverified prefix": the entry is what n's leader holds at or below its own snapshot index (a
        \* prefix kept through InstallSnapshot, never checked against any leader) and served from there
        fromPrefix == \E p \in servers \ {n} : obs[n].leader = p /\ i \in DOMAIN dlog[p] /\ dlog[p][i] = e /\ i <= SnapIdxOf(dsnaps[p])
        V == (IF i \in DOMAIN g.agreed /\ g.agreed[i] = e THEN {}
              ELSE IF fromPrefix THEN {<<"C02", "AppliedLeaderPrefixBelowSnapshot", <<n, i, e, obs[n].leader>>>>}
              ELSE {<<"C02", "AppliedNotAgreed", <<n, i, e>>>>})
             \* state machine safety, directly: no FSM is handed at index i something else than what was reported
             \* committed there first (applied by an FSM, acknowledged to a caller)
             \* (the unverified-prefix finding has its own name above)
             \cup (IF i \in DOMAIN g.reported /\ g.reported[i] # e /\ i > MaxSet(g.burned) /\ ~fromPrefix
                   THEN {<<"C02", "AppliedDiffersFromReported", <<n, i, e, g.reported[i]>>>>} ELSE {})
             \cup (IF i > g.fsmLast[n] THEN {} ELSE {<<"C02", "ApplyOutOfOrder", <<n, i, g.fsmLast[n]>>>>})
             \cup {<<"C02", "SkippedCommand", <<n, k>>>> :
                     k \in {j \in (g.fsmLast[n] + 1)..(i - 1) : j > MaxSet(g.burned) /\ (j \notin DOMAIN g.agreed \/ g.agreed[j][2] = "cmd")}}
             \cup (IF ln.id \in g.abOK THEN {<<"C02", "AbortedEntryApplied", <<n, i, ln.id>>>>} ELSE {})
             \* at start-up (RestoreCommittedLogs) only entries known to be committed are replayed
             \cup (IF n \in g.starting /\ ~(i \in DOMAIN g.agreed /\ g.agreed[i] = e) /\ hdr.fam # "l2"
                   THEN {<<"C10", "RestartReplayedUncommitted", <<n, i, e>>>>} ELSE {})
    IN /\ g' = [g EXCEPT !.fsmLast[n] = Max(@, i),
                         !.abApp = IF ln.id \in DOMAIN g.abOf THEN @ \cup {<<n, i, ln.id>>} ELSE @,
                         !.reported = IF i \in DOMAIN @ THEN @ ELSE [p \in {i} |-> e] @@ @]
       /\ Judge(V, {}) /\ Keep
  ELSE IF ln.op = "restore" THEN
    LET i == g.fsmOpen[n][1]
        \* (the single-server worlds of L2 start from synthetic images and have no cluster history to compare with)
        V == IF hdr.fam = "l2" \/ ContentFaithful(ln.content, i, g.agreed, g.bases, g.burned) THEN {}
             ELSE {<<"C02", "RestoreNotAgreedState", <<n, i, ln.content>>>>}
                  \* at start-up: the FSM is rebuilt with entries skipped or repeated
                  \cup (IF n \in g.starting THEN {<<"C10", "RestartFSMNotAgreedState", <<n, i, ln.content>>>>} ELSE {})
    IN /\ g' = [g EXCEPT !.fsmLast[n] = i]
       /\ Judge(V, {}) /\ Keep
  ELSE Quiet /\ Keep /\ UNCHANGED g

DoSnap(ln) ==
  LET n == ln.n IN
  IF ln.op = "open" THEN
     /\ g' = [g EXCEPT !.fsmOpen[n] = <<ln.idx, ln.term>>]
     /\ Quiet /\ Keep
  ELSE IF ln.op = "close" THEN
     LET i  == ln.idx
         isUser == Has(ln, "user") /\ ln.user     \* written by Raft.Restore: content is the caller's
         b2 == IF isUser THEN g.bases \cup {[idx |-> i, content |-> ln.content]} ELSE g.bases
         d2 == IF isUser THEN g.burned \cup {i} ELSE g.burned
         ec == AgreedCfgAt(g.agreed, i)
         V  == (IF ContentFaithful(ln.content, i, g.agreed, b2, d2) THEN {}
                ELSE {<<"C11", "SnapshotContentNotAgreed", <<n, i, ln.content>>>>})
               \cup (IF i \in DOMAIN g.agreed /\ g.agreed[i][1] # ln.term /\ ~isUser THEN {<<"C11", "SnapshotTermWrong", <<n, i, ln.term>>>>} ELSE {})
               \cup (IF isUser \/ <<ln.cfgidx, ln.cfg>> = ec THEN {}
                     ELSE {<<"C11", "SnapshotConfigurationWrong", <<n, i, <<ln.cfgidx, ln.cfg>>, ec>>>>})
               \* a user Restore takes an index above the supplied snapshot's and above every index this server ever used
               \cup (LET sidx == IF g.rcur[n] \in DOMAIN g.inv THEN g.inv[g.rcur[n]].sidx ELSE 0
                     IN IF isUser /\ (i <= LogLast(dlog[n]) \/ i <= sidx \/ i <= obs[n].last)
                        THEN {<<"C20", "RestoreIndexNotFresh", <<n, i, LogLast(dlog[n]), sidx, obs[n].last>>>>} ELSE {})
         rec == [cfg |-> ln.cfg, cfgidx |-> ln.cfgidx, content |-> ln.content, id |-> ln.id, idx |-> ln.idx, term |-> ln.term]
     IN /\ g' = [g EXCEPT !.bases = b2, !.burned = d2, !.reff = IF isUser /\ g.rcur[n] # 0 THEN @ \cup {g.rcur[n]} ELSE @]
        \* the closed snapshot is durable from now on (the next state line lists the store's content)
        /\ dsnaps' = [dsnaps EXCEPT ![n] = IF SnapIdxOf(@) <= ln.idx THEN <<rec>> \o @ ELSE @]
        /\ Judge(V, {}) /\ UNCHANGED <<hdr, obs, dlog>>
  ELSE Quiet /\ Keep /\ UNCHANGED g

DoRestart(ln) ==
  /\ g' = [g EXCEPT !.starting = @ \cup {ln.n}, !.fsmLast[ln.n] = 0, !.hpend[ln.n] = <<>>, !.notif[ln.n] = <<>>, !.trans[ln.n] = <<>>, !.isrep[ln.n] = <<0, 0>>]
  /\ Quiet /\ Keep

DoStartFail(ln) ==
  Judge({<<"C10", "NewRaftDidNotReturn", <<ln.n, ln.why>>>>}, {}) /\ Keep /\ UNCHANGED g

DoInvoke(ln) ==
  /\ g' = [g EXCEPT !.inv = [p \in {ln.op} |-> [line |-> l, t |-> ln.t, n |-> ln.n, up |-> (IF Has(ln, "nodeup") THEN ln.nodeup ELSE TRUE),
                                                 term |-> (IF Has(ln, "term") THEN ln.term ELSE 0), kind |-> ln.kind,
                                                 cl |-> (IF ln.n \in DOMAIN obs THEN obs[ln.n].cl ELSE NoCfg),
                                                 sidx |-> (IF Has(ln, "sidx") THEN ln.sidx ELSE 0)]] @@ @,
                    !.rcur[ln.n] = IF ln.kind = "restore" THEN ln.op ELSE @]
  /\ Quiet /\ Keep

DoReturn(ln) ==
  LET n   == ln.n
      iv  == IF ln.op \in DOMAIN g.inv THEN g.inv[ln.op] ELSE [line |-> 0, t |-> 0, n |-> n, up |-> TRUE, term |-> 0, kind |-> ln.kind, cl |-> obs[n].cl, sidx |-> 0]
      ok  == ln.err = ""
      i   == ln.idx
      defFail == ln.err \in {"NotLeader", "EnqueueTimeout", "TransferInProgress"}
      vApply == IF ln.kind # "apply" THEN {} ELSE
                (IF ok /\ ~(i \in DOMAIN g.agreed /\ g.agreed[i][2] = "cmd" /\ g.agreed[i][3] = ln.arg)
                 THEN {<<"C08", "AckedNotCommittedThere", <<n, ln.op, i, ln.arg>>>>} ELSE {})
                \cup (IF ok /\ ln.resp # ("r:" \o ToString(i) \o ":" \o ln.arg)
                      THEN {<<"C08", "WrongResponse", <<n, ln.op, i, ln.resp>>>>} ELSE {})
                \cup (IF ok THEN {<<"C08", "AckOrder", <<ln.op, i, a>>>> : a \in {x \in g.acked : x[3] < iv.line /\ x[2] >= i}} ELSE {})
                \cup (IF defFail /\ ln.arg \in g.everSeen THEN {<<"C08", "FailedOpStored", <<n, ln.arg, ln.err>>>>} ELSE {})
      vBarrier == IF ln.kind = "barrier" /\ ok
                  THEN {<<"C08", "BarrierBeforeApply", <<n, ln.op, i, k>>>> :
                          k \in {j \in DOMAIN g.agreed : j < i /\ g.agreed[j][2] = "cmd" /\ j > g.fsmLast[n] /\ j > MaxSet(g.burned)}}
                  ELSE {}
      \* the voting members: of the configuration in force when the call was made or of the one in force when it returned
      \* (a change appended in between may or may not have been in force when the call was counted)
      vsR == Voters(tab, obs[n].cl)
      vsI == Voters(tab, iv.cl)
      Fresh(vs) == {q \in vs : q = n \/ (<<n, iv.term, q>> \in DOMAIN g.lastAck /\ g.lastAck[<<n, iv.term, q>>] > iv.line)}
      \* weaker: acknowledgements that REACHED the caller after the call (they may have been produced before it)
      Late(vs)  == {q \in vs : q = n \/ (<<n, iv.term, q>> \in DOMAIN g.lastAckR /\ g.lastAckR[<<n, iv.term, q>>] > iv.line)}
      Maj(A, vs) == 2 * Cardinality(A) > Cardinality(vs)
      vVerify == IF ln.kind = "verify" /\ ok /\ ~Maj(Late(vsR), vsR) /\ ~Maj(Late(vsI), vsI)
                 THEN {<<"C09", "VerifiedWithoutMajorityOfVoters", <<n, ln.op, iv.term, Late(vsR), vsR, Late(vsI), vsI>>>>}
                 ELSE IF ln.kind = "verify" /\ ok /\ ~Maj(Fresh(vsR), vsR) /\ ~Maj(Fresh(vsI), vsI)
                 THEN {<<"C09", "VerifiedOnAckProducedBeforeCall", <<n, ln.op, iv.term, Fresh(vsR), vsR>>>>} ELSE {}
      vDown == IF ~iv.up /\ ln.err # "Shutdown" THEN {<<"C17", "CallAfterShutdownNotRefused", <<n, ln.op, ln.kind, ln.err>>>>} ELSE {}
      vMember == IF ln.kind \in {"addvoter", "addnonvoter", "demote", "remove"} /\ ok
                    /\ ~(i \in DOMAIN g.agreed /\ g.agreed[i][2] = "cfg")
                 THEN {<<"C03", "AckedConfigNotCommitted", <<n, ln.op, i>>>>} ELSE {}
      \* a Restore that returns nil supersedes the calls it aborted: they were never committed and no FSM may see them
      \* (the order in which the returns of concurrent calls are observed is arbitrary: a call aborted by a Restore
      \* may be seen to return before or after the Restore itself)
      isAb   == ln.err = "AbortedByRestore" /\ g.rcur[n] # 0
      abKey  == IF ln.kind = "apply" THEN ln.arg ELSE ToString(ln.op)
      abOf2  == IF isAb THEN [p \in {abKey} |-> g.rcur[n]] @@ g.abOf ELSE g.abOf
      okR    == ln.kind = "restore" /\ ok
      rres2  == IF ln.kind = "restore" THEN [p \in {ln.op} |-> ln.err] @@ g.rres ELSE g.rres
      Refusals == {"RestoreRefused", "TransferInProgress", "NotLeader"}
      newOK  == IF okR THEN {x \in DOMAIN g.abOf : g.abOf[x] = ln.op}
                ELSE IF isAb /\ ln.kind = "apply" /\ g.rcur[n] \in DOMAIN g.rres /\ g.rres[g.rcur[n]] = "" THEN {ln.arg} ELSE {}
      vAb    == {<<"C02", "AbortedEntryApplied", <<a[1], a[2], a[3]>>>> : a \in {x \in g.abApp : x[3] \in newOK}}
                \* a Restore that is refused has no effect: nobody's call is aborted by it. (A Restore that was carried out
                \* -- its snapshot was written -- may still return ErrNotLeader / ErrLeadershipTransferInProgress / ...:
                \* that is the answer to the no-op Restore() appends afterwards, not a refusal.)
                \cup (IF ln.kind = "restore" /\ ln.err \in Refusals /\ ln.op \notin g.reff /\ {x \in DOMAIN abOf2 : abOf2[x] = ln.op} # {}
                      THEN {<<"C20", "RefusedRestoreAbortedCalls", <<n, ln.op, ln.err, {x \in DOMAIN abOf2 : abOf2[x] = ln.op}>>>>} ELSE {})
                \cup (IF isAb /\ g.rcur[n] \in DOMAIN g.rres /\ g.rres[g.rcur[n]] \in Refusals /\ g.rcur[n] \notin g.reff
                      THEN {<<"C20", "RefusedRestoreAbortedCalls", <<n, g.rcur[n], g.rres[g.rcur[n]], {abKey}>>>>} ELSE {})
      V == vApply \cup vBarrier \cup vVerify \cup vDown \cup vMember \cup vAb
  IN /\ g' = [g EXCEPT !.abOf = abOf2, !.abOK = @ \cup newOK, !.done = @ \cup {ln.op}, !.rres = rres2,
                       !.acked = IF ln.kind = "apply" /\ ok THEN @ \cup {<<ln.op, i, l>>} ELSE @,
                       !.failed = IF ln.kind = "apply" /\ defFail THEN @ \cup {ln.arg} ELSE @,
                       !.probeOK = @ \/ (ln.kind = "apply" /\ ok /\ g.stopAt >= 0 /\ iv.t >= g.stopAt)]
     /\ Judge(V, {}) /\ Keep

DoHook(ln) ==
  LET V == IF ln.name = "appendConfigurationEntry" /\ ~(ln.args[2] = ln.args[3] /\ ln.args[4] >= ln.args[5])
           THEN {<<"C07", "ConfigChangeNotGated", ln.args>>} ELSE {}
  IN Judge(V, {}) /\ Keep /\ UNCHANGED g

DoPart(ln) ==
  /\ g' = [g EXCEPT !.blocked = {{p[1], p[2]} : p \in SeqToSet(ln.blocked)}]
  /\ Quiet /\ Keep

DoNotify(ln) ==   \* a value was consumed from NotifyCh of ln.n
  LET n == ln.n
      k == Len(g.notif[n]) + 1
      V == (IF k <= Len(g.trans[n]) /\ g.trans[n][k] = ln.val THEN {}
            ELSE {<<"C18", "NotificationMismatch", <<n, k, ln.val, g.trans[n]>>>>})
           \cup (IF k > 1 /\ g.notif[n][k - 1] = ln.val THEN {<<"C18", "NotAlternating", <<n, k, ln.val>>>>} ELSE {})
  IN /\ g' = [g EXCEPT !.notif[n] = Append(@, ln.val)]
     /\ Judge(V, {}) /\ Keep

DoTick(ln) ==   \* time is about to advance from ln.t: every current leader must have a recent majority (C13)
  LET bound == 2 * params.lease_us
      V == {<<"C13", "LeaderWithoutRecentMajority", <<ld, ln.t>>>> :
              ld \in {x \in ActiveLeaders(obs) :
                        LET vs == Voters(tab, obs[x].cl)
                        IN ~(2 * Cardinality({q \in vs : q = x \/ (<<x, q>> \in DOMAIN g.contact /\ ln.t - g.contact[<<x, q>>] <= bound)})
                               > Cardinality(vs))}}
  IN Judge(IF Has(params, "leasecheck") /\ params.leasecheck THEN V ELSE {}, {}) /\ Keep /\ UNCHANGED g

DoStopFaults(ln) == g' = [g EXCEPT !.stopAt = ln.t] /\ Quiet /\ Keep

\* the harness says the cluster is at rest (faults stopped long ago, everything delivered): C12, C18, C20
\* m's newest snapshot was written by a user Restore on m that the cluster never adopted: the leader's log holds
\* a real entry, of another term, at the index the restore burned
Abandoned(m, ld) ==
  LET sn == dsnaps[m] IN
  Len(sn) > 0 /\ sn[1].idx \in g.burned /\ sn[1].idx \in DOMAIN dlog[ld] /\ dlog[ld][sn[1].idx][1] # sn[1].term

DoQuiesce(ln) ==
  LET L  == ActiveLeaders(obs)
      ld == CHOOSE x \in L : TRUE
      members == IF L = {} THEN {} ELSE {m \in CfgMembers(tab, obs[ld].cl) : m \in servers /\ obs[m].up}
      vConv == IF ~ln.expectconv THEN {} ELSE
               (IF Cardinality(L) = 1 THEN {} ELSE {<<"C12", "NotExactlyOneLeader", L>>})
               \cup (IF g.probeOK THEN {} ELSE {<<"C12", "ProbeWriteNotAcknowledged", ln.t>>})
               \cup (IF Cardinality(L) # 1 THEN {} ELSE
                     {<<"C12", (IF Abandoned(m, ld) THEN "MemberWithAbandonedRestoreNotCaughtUp" ELSE "MemberNotCaughtUp"),
                        <<m, obs[m].applied, obs[ld].commit>>>> :
                        m \in {x \in members : obs[x].applied < obs[ld].commit}})
      vFsm  == {<<"C20", "FinalFSMNotAgreedState", <<m, ln.fsm[m]>>>> :
                 m \in {x \in servers : obs[x].up /\ x \in DOMAIN ln.fsm
                          /\ ~ContentFaithful(ln.fsm[x], g.fsmLast[x], g.agreed, g.bases, g.burned)}}
      vNote == {<<"C18", "RestValueWrong", <<m, g.notif[m], obs[m].role>>>> :
                 m \in {x \in servers : obs[x].up /\ ln.notifydrained
                          /\ (LET s == g.notif[x] IN (IF Len(s) = 0 THEN FALSE ELSE s[Len(s)]) # (obs[x].role = "L"))}}
               \cup {<<"C18", "NotificationCount", <<m, g.notif[m], g.trans[m]>>>> :
                 m \in {x \in servers : obs[x].up /\ ln.notifydrained /\ g.notif[x] # g.trans[x]}}
               \cup {<<"C18", "LeaderChStale", <<m, ln.leaderch[m], g.trans[m]>>>> :
                 m \in {x \in servers : obs[x].up /\ x \in DOMAIN ln.leaderch /\ Len(g.trans[x]) > 0
                          /\ ln.leaderch[x] # (IF g.trans[x][Len(g.trans[x])] THEN "true" ELSE "false")}}
      vStable == IF Has(ln, "expectstable") /\ ln.expectstable /\ Cardinality(g.leaders) # 1
                 THEN {<<"C13", "LeadershipChangedInFaultFreeRun", g.leaders>>} ELSE {}
  IN Judge(vConv \cup vFsm \cup vNote \cup vStable, {}) /\ Keep /\ UNCHANGED g

DoAssertLeader(ln) ==   \* the driver kept a majority of the voters answering ln.n all along (family leaseiso)
  \* (ln.term: the term it led when the driver started watching; leading a later term means it was deposed in between)
  LET V == IF obs[ln.n].up /\ obs[ln.n].role = "L" /\ (Has(ln, "term") => obs[ln.n].term = ln.term) THEN {}
           ELSE {<<"C13", "HealthyLeaderDeposed", <<ln.n, obs[ln.n].role, obs[ln.n].term>>>>}
  IN Judge(V, {}) /\ Keep /\ UNCHANGED g

DoAssertDone(ln) ==   \* the driver waited ln.bound_us of virtual time on a running server: the call must have been answered
  LET V == IF ln.op \in g.done \/ ~obs[ln.n].up THEN {} ELSE {<<"C17", "FutureNotResolvedInBoundedTime", <<ln.n, ln.op, ln.kind, ln.bound_us>>>>}
  IN Judge(V, {}) /\ Keep /\ UNCHANGED g

DoStranded(ln) ==
  \* C20: a call made on the leader before a Restore that returned nil there was in flight (or queued ahead of it, the
  \* queues being FIFO): it was committed before the restore or aborted by it, and in both cases answered
  LET rs == {r \in DOMAIN g.rres : g.rres[r] = "" /\ r \in DOMAIN g.inv /\ g.inv[r].n = ln.n
                                   /\ ln.op \in DOMAIN g.inv /\ g.inv[ln.op].line < g.inv[r].line}
      V  == IF ln.kind \in {"apply", "barrier"} /\ ln.nodeup /\ rs # {}
            THEN {<<"C20", "InflightCallNotAbortedByRestore", <<ln.n, ln.op, ln.kind, rs>>>>} ELSE {}
  IN Judge({<<"C17", "FutureNeverResolved", <<ln.n, ln.op, ln.kind, ln.inapi, ln.nodeup>>>>} \cup V, {}) /\ Keep /\ UNCHANGED g

DoLeak(ln) ==
  Judge({<<"C17", "GoroutineBlockedForEver", ln.msg>>}, {}) /\ Keep /\ UNCHANGED g

DoOther(ln) ==
  /\ (IF ln.ev = "end" THEN PrintT("TRACE_END|" \o ToString(trno) \o "|" \o ToString(l) \o "|" \o ToString(cnt.viol) \o "|" \o ToString(cnt.nonconf)) ELSE TRUE)
  /\ Quiet /\ Keep /\ UNCHANGED g

Next ==
  /\ l <= NLines
  /\ l' = l + 1
  /\ LET ln == Trace[l] IN
     CASE ln.ev = "reset"   -> DoReset(ln)
       [] ln.ev \in {"state", "crash", "down"} -> DoState(ln)
       [] ln.ev = "role"    -> DoRole(ln)
       [] ln.ev = "send"    -> DoSend(ln)
       [] ln.ev = "handle"  -> DoHandle(ln)
       [] ln.ev = "reply"   -> DoReply(ln)
       [] ln.ev = "deliver" -> DoDeliver(ln)
       [] ln.ev = "store"   -> DoStore(ln)
       [] ln.ev = "fsm"     -> DoFsm(ln)
       [] ln.ev = "snap"    -> DoSnap(ln)
       [] ln.ev = "restart" -> DoRestart(ln)
       [] ln.ev = "startfail" -> DoStartFail(ln)
       [] ln.ev = "invoke"  -> DoInvoke(ln)
       [] ln.ev = "return"  -> DoReturn(ln)
       [] ln.ev = "hook"    -> DoHook(ln)
       [] ln.ev = "part"    -> DoPart(ln)
       [] ln.ev = "notify"  -> DoNotify(ln)
       [] ln.ev = "tick"    -> DoTick(ln)
       [] ln.ev = "faultsstopped" -> DoStopFaults(ln)
       [] ln.ev = "quiesce" -> DoQuiesce(ln)
       [] ln.ev = "stranded" -> DoStranded(ln)
       [] ln.ev = "assertleader" -> DoAssertLeader(ln)
       [] ln.ev = "assertdone" -> DoAssertDone(ln)
       [] ln.ev = "leak"    -> DoLeak(ln)
       [] OTHER             -> DoOther(ln)

Spec == Init /\ [][Next]_vars

\* acceptance: the whole file was consumed
Consumed == TLCGet("stats").diameter = NLines + 1
=============================================================================
