----------------------------- MODULE LeaseTimed -----------------------------
(***************************************************************************)
(* C13 at design level: the leader lease of hashicorp/raft as implemented   *)
(* (raft.go leaderLoop `case <-lease`, checkLeaderLease; replication.go     *)
(* setLastContact), in discrete time.                                       *)
(*                                                                          *)
(* The leader remembers, per voter, when it last heard from it. A one-shot  *)
(* timer fires the check; the check counts the voters heard from within     *)
(* LeaseTimeout (itself included), steps down without a quorum, and         *)
(* otherwise re-arms the timer with LeaseTimeout - (largest age counted),   *)
(* but not less than MinCheck (10 ms in the code).                          *)
(*                                                                          *)
(* Environment: a reachable voter answers at least every HB ticks; a cut    *)
(* voter never answers again. Rearm = FALSE models a check that forgets to  *)
(* re-arm the timer on one path (the seeded change C13r2): TLC then finds   *)
(* the leader that never steps down.                                        *)
(***************************************************************************)
EXTENDS Integers, FiniteSets, TLC

CONSTANTS Others,     \* the voters other than the leader
          Lease, HB, MinCheck, MaxT,
          Rearm       \* BOOLEAN: the timer is re-armed after every check (the code)

VARIABLES now, last, up, next, leader, lostAt, skipped
vars == <<now, last, up, next, leader, lostAt, skipped>>

Quorum == (Cardinality(Others) + 1) \div 2 + 1
Max2(a, b) == IF a >= b THEN a ELSE b

Init == /\ now = 0 /\ last = [v \in Others |-> 0] /\ up = [v \in Others |-> TRUE]
        /\ next = Lease /\ leader = TRUE /\ lostAt = -1 /\ skipped = FALSE

\* a response from v arrives (replicateTo / heartbeat: setLastContact)
Ack(v) == leader /\ up[v] /\ last[v] < now /\ last' = [last EXCEPT ![v] = now]
          /\ UNCHANGED <<now, up, next, leader, lostAt, skipped>>

\* the link to v is cut for good; lostAt = the instant the leader lost its majority
Cut(v) == /\ up[v] /\ up' = [up EXCEPT ![v] = FALSE]
          /\ lostAt' = IF lostAt < 0 /\ Cardinality({w \in Others : up'[w]}) + 1 < Quorum THEN now ELSE lostAt
          /\ UNCHANGED <<now, last, next, leader, skipped>>

\* case <-lease: checkLeaderLease
Check ==
  /\ leader /\ now = next
  /\ LET C == {v \in Others : now - last[v] <= Lease}
         maxDiff == IF C = {} THEN 0 ELSE CHOOSE d \in {now - last[v] : v \in C} : \A v \in C : now - last[v] <= d
     IN IF Cardinality(C) + 1 < Quorum
        THEN leader' = FALSE /\ UNCHANGED <<next, skipped>>
        ELSE /\ leader' = TRUE
             /\ \/ /\ next' = now + Max2(Lease - maxDiff, MinCheck) /\ UNCHANGED skipped
                \/ /\ ~Rearm /\ ~skipped /\ skipped' = TRUE /\ next' = MaxT + 1     \* the timer is never armed again
  /\ UNCHANGED <<now, last, up, lostAt>>

\* time passes: not past a pending check, and not while a reachable voter owes an answer
Tick == /\ now < MaxT /\ (leader => now < next)
        /\ \A v \in Others : (leader /\ up[v]) => now - last[v] < HB
        /\ now' = now + 1 /\ UNCHANGED <<last, up, next, leader, lostAt, skipped>>

Next == Tick \/ Check \/ \E v \in Others : Ack(v) \/ Cut(v)
Spec == Init /\ [][Next]_vars

\* C13: without a majority the leader is gone within twice the lease timeout
StepsDownInTime == (leader /\ lostAt >= 0) => now - lostAt <= 2 * Lease
\* C13: a leader whose majority keeps answering is never deposed by the lease check
HealthyStays == ~leader => lostAt >= 0
=============================================================================
