------------------------------ MODULE Lifecycle ------------------------------
(***************************************************************************)
(* C17 at design level: the life of a future handed out by the public API  *)
(* of hashicorp/raft (api.go, future.go, raft.go), as implemented.          *)
(*                                                                          *)
(*   caller:  Call        api.go ApplyLog / Barrier / VerifyLeader / ...    *)
(*              select { case ch <- future | <-timer | <-shutdownCh }        *)
(*            Wait        future.Error(): <-errCh, and <-ShutdownCh only     *)
(*                        for the future types that carry one               *)
(*   server:  Serve       the run loop of the current role takes a future   *)
(*                        off the queue (leader: dispatches it; follower /  *)
(*                        candidate: answers ErrNotLeader)                  *)
(*            Commit      an in-flight future is answered (nil)             *)
(*            StepDown    leader -> follower: in-flight futures get         *)
(*                        ErrLeadershipLost (raft.go runLeader clean-up)    *)
(*            Shutdown    closes shutdownCh; the run loop exits             *)
(*                                                                          *)
(* Queues are Go channels of capacity Cap (applyCh with BatchApplyCh,       *)
(* verifyCh 64, leadershipTransferCh 1; Cap = 0 models the unbuffered       *)
(* applyCh: a send needs a run loop that is receiving).                     *)
(*                                                                          *)
(* With Repaired = FALSE the model is the code: TLC finds the two open      *)
(* findings of C17 (KF-C17-future-stranded-by-shutdown,                     *)
(* KF-C17-call-after-shutdown-enqueued) as violations of NoStrandedCaller.  *)
(* With Repaired = TRUE (the run loop drains its queues on exit, a closed   *)
(* shutdownCh wins the enqueue select, every future waits on ShutdownCh as  *)
(* well) the invariant holds: this is the repair the findings call for.     *)
(* The simulator families lifecycle / transferhang observe the same events  *)
(* on the real code (invoke / return / stranded, FutureNeverResolved,       *)
(* CallAfterShutdownNotRefused in HRaftTrace.tla).                          *)
(***************************************************************************)
EXTENDS Integers, Sequences, FiniteSets, TLC

CONSTANTS Fut,        \* future identifiers
          Cap,        \* capacity of the queue the API call sends on
          HasShutdownCh, \* BOOLEAN: does this future type select on ShutdownCh in Error()?
          Repaired    \* BOOLEAN: the repaired design

VARIABLES role,       \* "leader" | "follower" | "down" (run loop exited)
          closed,     \* shutdownCh closed
          queue,      \* sequence of futures sitting in the channel
          st          \* [Fut -> "new" | "queued" | "inflight" | "fsmq" | "answered"]
                      \*   answered = errCh has a value, or the caller left through ShutdownCh / timer: Error() returns
vars == <<role, closed, queue, st>>

Init == role = "leader" /\ closed = FALSE /\ queue = <<>> /\ st = [f \in Fut |-> "new"]

InQueue(f) == \E i \in 1..Len(queue) : queue[i] = f

\* api.go: select { case ch <- future: | case <-timer: | case <-r.shutdownCh: }
\* Go picks at random among the ready cases.
Call(f) ==
  /\ st[f] = "new"
  /\ \/ /\ closed                                   \* case <-r.shutdownCh
        /\ st' = [st EXCEPT ![f] = "answered"] /\ UNCHANGED queue
     \/ /\ Len(queue) < Cap                         \* buffered send: ready whenever there is room ...
        /\ (Repaired => ~closed)                    \* ... repaired: a closed shutdownCh is checked first
        /\ queue' = Append(queue, f) /\ st' = [st EXCEPT ![f] = "queued"]
     \/ /\ Cap = 0 /\ role # "down"                 \* unbuffered: the send completes when the run loop receives,
        /\ UNCHANGED queue                          \* so hand-over and Serve are one step
        /\ st' = [st EXCEPT ![f] = IF role = "leader" THEN "inflight" ELSE "answered"]
     \/ /\ st' = [st EXCEPT ![f] = "answered"] /\ UNCHANGED queue      \* enqueue timeout (ErrEnqueueTimeout)
  /\ UNCHANGED <<role, closed>>

\* the run loop of the current role receives from the channel
Serve ==
  /\ role # "down" /\ Len(queue) > 0
  /\ LET f == Head(queue) IN
     /\ queue' = Tail(queue)
     /\ st' = [st EXCEPT ![f] = IF role = "leader" THEN "inflight" ELSE "answered"]   \* follower: ErrNotLeader
  /\ UNCHANGED <<role, closed>>

\* the entry commits: processLogs hands the future to the FSM goroutine through fsmMutateCh (buffered) ...
Commit(f) == st[f] = "inflight" /\ role = "leader" /\ st' = [st EXCEPT ![f] = "fsmq"] /\ UNCHANGED <<role, closed, queue>>
\* ... which applies it and answers (runFSM); it stops at shutdown without draining its channel
FsmApply(f) == st[f] = "fsmq" /\ ~closed /\ st' = [st EXCEPT ![f] = "answered"] /\ UNCHANGED <<role, closed, queue>>

\* runLeader's deferred clean-up answers everything in flight with ErrLeadershipLost
StepDown ==
  /\ role = "leader"
  /\ role' = "follower"
  /\ st' = [f \in Fut |-> IF st[f] = "inflight" THEN "answered" ELSE st[f]]
  /\ UNCHANGED <<closed, queue>>

\* Shutdown(): close(shutdownCh); the run loop returns. In-flight futures of a leader are answered by the same
\* clean-up as at step-down. What still sits in a channel is nobody's business any more (as implemented).
Shutdown ==
  /\ ~closed
  /\ closed' = TRUE /\ role' = "down"
  /\ queue' = IF Repaired THEN <<>> ELSE queue
  /\ st' = [f \in Fut |-> IF st[f] = "inflight" THEN "answered"
                          ELSE IF Repaired /\ st[f] \in {"queued", "fsmq"} THEN "answered" ELSE st[f]]

\* future.Error(): a future that selects on ShutdownCh leaves when it is closed
Leave(f) ==
  /\ st[f] \in {"queued", "fsmq"} /\ closed /\ (HasShutdownCh \/ Repaired)
  /\ st' = [st EXCEPT ![f] = "answered"] /\ UNCHANGED <<role, closed, queue>>

Next == \/ \E f \in Fut : Call(f) \/ Commit(f) \/ FsmApply(f) \/ Leave(f)
        \/ Serve \/ StepDown \/ Shutdown
Spec == Init /\ [][Next]_vars /\ WF_vars(Serve) /\ \A f \in Fut : WF_vars(Commit(f)) /\ WF_vars(FsmApply(f)) /\ WF_vars(Leave(f))

TypeOK == /\ role \in {"leader", "follower", "down"} /\ closed \in BOOLEAN
          /\ st \in [Fut -> {"new", "queued", "inflight", "fsmq", "answered"}]
          /\ \A i \in 1..Len(queue) : st[queue[i]] = "queued"

\* C17, safety form: once the server is down, no caller is left with a future that nothing will ever answer:
\* a queued future whose caller cannot leave through ShutdownCh
NoStrandedCaller == (role = "down") => \A f \in Fut : st[f] \in {"queued", "fsmq"} => (HasShutdownCh \/ Repaired)
\* ... and no call made after Shutdown() is accepted
NoEnqueueAfterShutdown == [][\A f \in Fut : (closed /\ st[f] = "new") => st'[f] # "queued"]_vars
\* C17, liveness form (under the fairness of Spec): every call is eventually answered
EveryCallAnswered == \A f \in Fut : (st[f] # "new") ~> (st[f] = "answered")
=============================================================================
