------------------------------ MODULE L2Cases ------------------------------
(***************************************************************************)
(* Input spaces for the single-node layer (L2): durable images x requests.  *)
(* TLC enumerates them; harness/sim RunL2Case starts a REAL node from each  *)
(* image (NewRaft on pre-loaded stores), injects the requests, optionally   *)
(* crashes / fails a store write inside a handler and restarts; the traces  *)
(* are judged by HRaftTrace.tla (step predicates of C04/C06/C10, handler    *)
(* operators of RaftOps).                                                   *)
(***************************************************************************)
EXTENDS Integers, Sequences, FiniteSets, TLC, Json

CONSTANTS Suite,      \* "ae" | "vote" | "vote2" | "vote3" | "restart"
          MaxLen,     \* follower log length (index 1 is the bootstrap configuration)
          MaxT        \* terms 1..MaxT

Terms == 1..MaxT
Min2(a, b) == IF a <= b THEN a ELSE b
\* term vectors for indexes 2..len, non-decreasing, starting at >= 1
RECURSIVE Mono(_, _)
Mono(n, lo) == IF n = 0 THEN {<<>>} ELSE UNION {{<<t>> \o s : s \in Mono(n - 1, t)} : t \in lo..MaxT}

LogOf(tv) == <<<<1, 1, "cfg", "cfg">>>> \o [k \in 1..Len(tv) |-> <<k + 1, tv[k], "cmd", "x" \o ToString(k + 1) \o "t" \o ToString(tv[k])>>]
LastT(tv) == IF Len(tv) = 0 THEN 1 ELSE tv[Len(tv)]

\* images: log, current term, optional snapshot (index s, entries <= s - keep removed)
Imgs == UNION {UNION {UNION {
          { [ct |-> ct, vt |-> 0, vc |-> "", dcommit |-> 0,
             log |-> SelectSeq(LogOf(tv), LAMBDA e : sn = 0 \/ e[1] > sn - keep),
             snap |-> IF sn = 0 THEN <<>> ELSE <<sn, LogOf(tv)[sn][2]>>] : keep \in {0, 1} }
          : sn \in {0} \cup ((1..(Len(tv) + 1)) \cap {1, 2}) }
          : ct \in {LastT(tv), Min2(LastT(tv) + 1, MaxT)} }
          : tv \in UNION {Mono(n, 1) : n \in 0..(MaxLen - 1)} }
\* AppendEntries requests for an image whose log has `len` entries
\* an entry of the request that has the index and term of an entry of the image IS that entry (Log Matching holds
\* in every reachable world); all others carry a payload of their own
ReqEnt(img, i, t) ==
  LET S == {k \in 1..Len(img.log) : img.log[k][1] = i /\ img.log[k][2] = t}
  IN IF S # {} THEN img.log[CHOOSE k \in S : TRUE] ELSE <<i, t, "cmd", "y" \o ToString(i) \o "t" \o ToString(t)>>
AEReq(img, t, p, pt, c, ev) ==
  [term |-> t, prev |-> p, prevterm |-> pt, commit |-> c,
   entries |-> [k \in 1..Len(ev) |-> ReqEnt(img, p + k, ev[k])]]
AEReqs(img, len) ==
  UNION {UNION {UNION {
     { AEReq(img, t, p, pt, c, ev) : t \in {img.ct - 1, img.ct, img.ct + 1} \cap (1..(MaxT + 1)), c \in {0, 2, 9} }
     : ev \in UNION {Mono(n, IF pt = 0 THEN 1 ELSE pt) : n \in 0..2} }
     : pt \in (IF p = 0 THEN {0} ELSE Terms) }
     : p \in 0..(len + 1) }

Cand == {"n2", "n3"}
\* candidate log positions relative to the image's last entry: behind / equal / ahead (index or term)
Positions(lastI, lastT) == {<<lastI, lastT>>, <<lastI + 1, lastT>>, <<lastI, lastT + 1>>} \cup
                           (IF lastI > 1 THEN {<<lastI - 1, lastT>>} ELSE {}) \cup (IF lastT > 1 THEN {<<lastI + 3, lastT - 1>>} ELSE {})
VoteImgs == UNION {UNION {
              { [ct |-> ct, vt |-> v[1], vc |-> v[2], dcommit |-> 0, log |-> LogOf(tv), snap |-> <<>>] :
                  v \in {<<0, "">>} \cup {<<vt, c>> : vt \in {ct - 1, ct} \cap (1..MaxT), c \in Cand \cup {"n1"}} }
              : ct \in LastT(tv)..MaxT }
              : tv \in UNION {Mono(n, 1) : n \in 0..(MaxLen - 1)} }
\* the last entry of an image: of its log, or of its snapshot when that is ahead of the log
LastOf(img) ==
  LET n == Len(img.log)
      si == IF img.snap = <<>> THEN 0 ELSE img.snap[1]
  IN IF n > 0 /\ img.log[n][1] >= si THEN <<img.log[n][1], img.log[n][2]>> ELSE <<img.snap[1], img.snap[2]>>
VoteStepsAt(img, lastI, lastT, faults) ==
  { [k |-> "rv", src |-> c, crashat |-> f[1], failat |-> f[2],
        req |-> [term |-> t, lli |-> p[1], llt |-> p[2], xfer |-> x]] :
         c \in Cand, t \in {img.ct - 1, img.ct, img.ct + 1} \cap (1..(MaxT + 1)), p \in Positions(lastI, lastT), x \in BOOLEAN, f \in faults }
     \cup { [k |-> "pv", src |-> c, crashat |-> 0, failat |-> 0, req |-> [term |-> t, lli |-> p[1], llt |-> p[2]]] :
         c \in Cand, t \in {img.ct, img.ct + 1}, p \in Positions(lastI, lastT) }
     \cup { [k |-> "tn", src |-> c, crashat |-> f[1], failat |-> f[2], req |-> [from |-> c]] : c \in {"n2"}, f \in faults }
VoteSteps(img, faults) == VoteStepsAt(img, LastOf(img)[1], LastOf(img)[2], faults)
NoFault == {<<0, 0>>}
Faults == {<<0, 0>>, <<1, 0>>, <<2, 0>>, <<3, 0>>, <<0, 1>>, <<0, 2>>}
Restart == [k |-> "restart", src |-> "", crashat |-> 0, failat |-> 0, req |-> [x |-> 0]]
WithRestart(s) == IF s.crashat > 0 THEN <<s, Restart>> ELSE <<s>>

Cases ==
  CASE Suite = "ae" ->
         UNION {{[flavor |-> "", img |-> img, steps |-> <<[k |-> "ae", src |-> "n2", crashat |-> 0, failat |-> 0, req |-> r]>>] :
                    r \in AEReqs(img, IF Len(img.log) = 0 THEN img.snap[1] ELSE img.log[Len(img.log)][1])} : img \in Imgs}
    [] Suite = "vote" ->
         UNION {{[flavor |-> "", img |-> img, steps |-> WithRestart(s)] : s \in VoteSteps(img, Faults)} : img \in VoteImgs}
    [] Suite = "vote2" ->
         UNION {UNION {{[flavor |-> "", img |-> img, steps |-> WithRestart(s1) \o <<s2>>] :
                    s2 \in {x \in VoteSteps(img, NoFault) : x.k = "rv" /\ x.req.term \in {img.ct, img.ct + 1} /\ ~x.req.xfer
                                                               /\ x.req.lli <= Len(img.log) + 1 /\ x.req.llt <= img.log[Len(img.log)][2]}} :
                    s1 \in {x \in VoteSteps(img, Faults) : x.k \in {"rv", "tn"} /\ (x.k = "tn" \/ (x.req.term >= img.ct /\ ~x.req.xfer
                                                               /\ x.req.lli <= Len(img.log) + 1 /\ x.req.llt <= img.log[Len(img.log)][2]))}} :
                    img \in {i \in VoteImgs : Len(i.log) = 2 /\ i.ct = 2}}

\* C10: start a real node from every image (with / without snapshot, every staged commit index, the
\* three store flavours), then crash and restart it once more
\* C06 with a snapshot ahead of the log (a follower just caught up by InstallSnapshot, a restart in that state,
\* RecoverCluster): the voter's last entry is the snapshot's
VoteSnapCases ==
  UNION {{[flavor |-> "", img |-> img, steps |-> <<s>>] : s \in {x \in VoteSteps(img, NoFault) : x.k \in {"rv", "pv"}}} :
            img \in {i \in Imgs : i.snap # <<>> /\ (Len(i.log) = 0 \/ i.log[Len(i.log)][1] <= i.snap[1])}}

\* images in which a configuration entry SURVIVED compaction below the snapshot (TrailingLogs): the log store ends with
\* the bootstrap entry, the snapshot lies beyond it and carries a later configuration (a follower that lagged, was caught
\* up by InstallSnapshot and keeps its old tail): the restarted server goes by the snapshot's configuration
CfgTailImgs == { [ct |-> t, vt |-> 0, vc |-> "", dcommit |-> 0, log |-> <<<<1, 1, "cfg", "cfg">>>>, snap |-> <<s, t>>, scfg |-> "other"] :
                   s \in {2, 3}, t \in 1..2 }
RestartCases ==
  UNION {UNION {
     { [flavor |-> fl, img |-> [img EXCEPT !.dcommit = dc, !.vt = v[1], !.vc = v[2]], steps |-> <<Restart>>] :
         dc \in (IF fl = "ct" THEN 0..(Len(img.log) + 1) ELSE {0}), v \in {<<0, "">>, <<img.ct, "n2">>, <<img.ct - 1, "n1">>} }
     : fl \in {"", "mono", "ct"} } : img \in Imgs \cup CfgTailImgs }

AllCases == IF Suite = "restart" THEN RestartCases ELSE IF Suite = "vote3" THEN VoteSnapCases ELSE Cases

VARIABLE cs
Init == cs \in AllCases /\ PrintT("CASE|" \o ToJson(cs))
Next == UNCHANGED cs
Spec == Init /\ [][Next]_cs
=============================================================================
