SPECIFICATION Spec
CONSTANTS
  Suite = "vote3"
  MaxLen = 3
  MaxT = 3
CHECK_DEADLOCK FALSE
