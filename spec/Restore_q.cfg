SPECIFICATION Spec
CONSTANTS
  Server = {"a", "b", "c"}
  MaxTerm = 3
  MaxCmd = 1
  MaxRestore = 1
  MaxIdx = 5
  Fix12 = TRUE
  KeepLog = TRUE
INVARIANTS BurnedIndexFresh RestoredStateAgreed MarkerFirst
PROPERTIES AbortedLeaveNoTrace
CHECK_DEADLOCK FALSE
