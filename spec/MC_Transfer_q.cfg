SPECIFICATION Spec
CONSTANTS
  Server = {"a", "b", "c"}
  InitCfg = "abc"
  CfgTab <- Tab3
  MaxTerm = 3
  MaxLog = 3
  MaxClient = 0
  MaxCrash = 0
  MaxMsgs = 2
  MaxSnap = 0
  MaxMember = 0
  MaxTimeout = 1
  MaxDrop = 0
  MaxDup = 0
  MaxMisc = 0
  MaxAppend = 2
  Trailing = 1
  Features = {"prevote", "transfer"}
VIEW view
INVARIANTS ElectionSafety OneVotePerTerm TermDurable CommittedFunctional CommittedStable LeaderComplete LogMatching TermsMonotoneM CommitBounded CommitJustified FsmOnlyCommitted FsmInOrder FsmAgree OneUncommittedCfg NoHoleM ReportedCovered XferFlagOnlyCandidate
PROPERTIES NoWriteWhileTransferring
CHECK_DEADLOCK FALSE
