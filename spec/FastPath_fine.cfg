\* re-check and use as separate steps: the windows (a few instructions wide) the repairs leave open
SPECIFICATION Spec
CONSTANTS
  MaxTerm = 4
  Fix17 = TRUE
  Fix18 = TRUE
  Fix19 = TRUE
  Fix20 = TRUE
  Atomic = FALSE
INVARIANTS TypeOK ActsOnlyInWonTerms
CHECK_DEADLOCK FALSE
