SPECIFICATION Spec
CONSTANTS
  Fut = {f1, f2, f3}
  Cap = 0
  HasShutdownCh = FALSE
  Repaired = FALSE
INVARIANTS TypeOK NoStrandedCaller
PROPERTIES NoEnqueueAfterShutdown
CHECK_DEADLOCK FALSE
