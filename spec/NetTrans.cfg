SPECIFICATION Spec
CONSTANTS
  MaxOps = 2
  Pools = {1, 2}
CHECK_DEADLOCK FALSE
