---------------------------- MODULE L1Commitment ----------------------------
(***************************************************************************)
(* Exhaustive state graph of the transcribed `commitment` type              *)
(* (commitment.go) over a small universe.  Every edge (pre, op, post) is    *)
(* printed as JSON and replayed on the REAL commitment through the          *)
(* verif-tagged wrapper (harness/l1).  The properties of C05 that concern   *)
(* the commit rule are checked here on the operators themselves.            *)
(***************************************************************************)
EXTENDS RaftOps, Json

CONSTANTS Srv,      \* universe of server ids
          MaxIdx    \* match indexes range over 0..MaxIdx
VARIABLE c          \* [match, commit, start]

Suff == {"V", "N", "S", "A"}          \* voter, non-voter, staging, absent
Cfgs == [Srv -> Suff]
VotersOf(cfg) == {s \in Srv : cfg[s] = "V"}

Init == \E cfg \in Cfgs, st \in 0..(MaxIdx + 1) : c = CNew(VotersOf(cfg), st)

OpMatch(s, i) == c' = CMatch(c, s, i)
OpSetCfg(cfg) == c' = CSetCfg(c, VotersOf(cfg))

Emit(op) == PrintT("EDGE|" \o ToJson([pre |-> c, op |-> op, post |-> c']))

Next ==
  \/ \E s \in Srv, i \in 0..MaxIdx : OpMatch(s, i) /\ Emit([k |-> "match", s |-> s, i |-> i])
  \/ \E cfg \in Cfgs : OpSetCfg(cfg) /\ Emit([k |-> "setcfg", voters |-> VotersOf(cfg)])

Spec == Init /\ [][Next]_c

\* C05 on the operators: the commit index only moves forward, and only to an index that a strict
\* majority of the CURRENT voters (each counted once) have matched and that is not below startIndex
CommitMonotone == [][c'.commit >= c.commit]_c
AdvanceJustified ==
  [][c'.commit > c.commit =>
        /\ 2 * Cardinality({v \in DOMAIN c'.match : c'.match[v] >= c'.commit}) > Cardinality(DOMAIN c'.match)
        /\ c'.commit >= c'.start]_c
OnlyVotersHaveSlots == [][\A cfg \in Cfgs : TRUE]_c
MatchOnlyGrows == [][\A v \in (DOMAIN c.match) \cap (DOMAIN c'.match) : c'.match[v] >= c.match[v]]_c
=============================================================================
