\* the same, larger bound
SPECIFICATION Spec
CONSTANTS
  MaxTerm = 6
  Fix17 = TRUE
  Fix18 = TRUE
  Fix19 = TRUE
  Fix20 = TRUE
  Atomic = TRUE
INVARIANTS TypeOK ActsOnlyInWonTerms LeaderStateInWonTerm TermNeverDecreases DurableTermKeepsUp AdvertisedLeaderLedTerm AdvertisedSelfLedTerm Alternates RestValue
CHECK_DEADLOCK FALSE
