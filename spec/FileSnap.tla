------------------------------ MODULE FileSnap ------------------------------
(***************************************************************************)
(* FileSnapshotStore (file_snapshot.go): the step sequence of Create /       *)
(* Write / Close / Cancel / ReapSnapshots over a directory tree with a       *)
(* volatile and a durable layer, and what List returns after a crash at any  *)
(* step.  File-system model M1: fsync(file) makes the file's content and its *)
(* directory entry durable; a rename is durable after fsync of the parent;   *)
(* anything not synced may or may not survive.                               *)
(*                                                                           *)
(* The module serves two purposes:                                           *)
(*  (1) TLC enumerates histories (which snapshots are created, closed or     *)
(*      cancelled, in which order, with which retain count); the harness     *)
(*      runs each history on the REAL store, crashes it at every hook point  *)
(*      (as-is and maximal-loss variants), recovers with a fresh store and   *)
(*      records List/Open; L1Real.tla judges C15 on what was observed.       *)
(*  (2) the same step sequence is checked exhaustively here against the      *)
(*      design-level properties (Durable*, below).                           *)
(***************************************************************************)
EXTENDS Integers, Sequences, FiniteSets, TLC, Json

CONSTANTS MaxSnaps,  \* snapshots per history
          Retains    \* retain counts

Keys == {<<1, 5>>, <<2, 3>>, <<2, 7>>, <<2, 10>>}     \* <<term, index>> pairs a snapshot may carry (one index with
                                                     \* more digits: directory-name order is not numeric order)
Modes == {"close", "cancel"}
Hist(n) == [1..n -> [key : Keys, mode : Modes]]
Histories == UNION {Hist(n) : n \in 1..MaxSnaps}

VARIABLE cs
Init == /\ cs \in [hist : Histories, retain : Retains]
        /\ PrintT("CASE|" \o ToJson(cs))
Next == UNCHANGED cs
Spec == Init /\ [][Next]_cs

-----------------------------------------------------------------------------
(* Design-level model of one Close: steps and what is durable after a crash at each step (M1).   *)
(* A snapshot directory is LISTED after recovery iff its final name is durable; it is COMPLETE   *)
(* iff state and final meta were synced before the rename.                                       *)
Steps == <<"mkdir", "meta0.write", "meta0.sync", "state.create", "state.write", "state.flush", "state.sync",
           "meta1.write", "meta1.sync", "rename", "parent.sync", "reap", "return">>
Pos(s) == CHOOSE i \in 1..Len(Steps) : Steps[i] = s
\* after a crash just AFTER step k of a closing snapshot:
MayBeListed(k)  == k >= Pos("rename")          \* the rename may have reached the disk
MustBeListed(k) == k >= Pos("parent.sync")     \* ... and must have, once the parent is synced
Complete(k)     == k >= Pos("meta1.sync")      \* contents and checksum are durable
\* the order of the code guarantees: whatever may be listed is complete
DurableOrder == \A k \in 1..Len(Steps) : MayBeListed(k) => Complete(k)
ASSUME DurableOrder
=============================================================================
