SPECIFICATION Spec
CONSTANTS
  F = {f1, f2}
  Fresh = TRUE
INVARIANTS TypeOK NoStaleSuccess MajorityVouched
CHECK_DEADLOCK FALSE
