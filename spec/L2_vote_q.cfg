SPECIFICATION Spec
CONSTANTS
  Suite = "vote"
  MaxLen = 2
  MaxT = 2
CHECK_DEADLOCK FALSE
