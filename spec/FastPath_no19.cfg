\* without repair ea62232: defect 19 (a follower of term T+1 names the leader of term T)
SPECIFICATION Spec
CONSTANTS
  MaxTerm = 4
  Fix17 = TRUE
  Fix18 = TRUE
  Fix19 = FALSE
  Fix20 = FALSE
  Atomic = TRUE
INVARIANTS TypeOK AdvertisedLeaderLedTerm
CHECK_DEADLOCK FALSE
