SPECIFICATION Spec
CONSTANTS
  MaxSnaps = 2
  Retains = {1, 2}
CHECK_DEADLOCK FALSE
