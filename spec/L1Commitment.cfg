SPECIFICATION Spec
CONSTANTS
  Srv = {"s1", "s2", "s3"}
  MaxIdx = 3
PROPERTIES CommitMonotone AdvanceJustified MatchOnlyGrows
CHECK_DEADLOCK FALSE
