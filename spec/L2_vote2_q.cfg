SPECIFICATION Spec
CONSTANTS
  Suite = "vote2"
  MaxLen = 3
  MaxT = 2
CHECK_DEADLOCK FALSE
