SPECIFICATION Spec
CONSTANTS
  N = 4
  Cap = 2
  MaxVer = 2
  MaxBatch = 3
INVARIANTS Transparent Coherent
CHECK_DEADLOCK FALSE
