SPECIFICATION Spec
CONSTANTS
  N = 4
  Cap = 2
  MaxVer = 2
  MaxBatch = 2
INVARIANTS Transparent Coherent
CHECK_DEADLOCK FALSE
