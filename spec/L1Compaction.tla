---------------------------- MODULE L1Compaction ----------------------------
(***************************************************************************)
(* compactLogsWithTrailing (snapshot.go) as the operator CompactRange of    *)
(* RaftOps, enumerated over all small inputs; each row is replayed on the   *)
(* real function with a recording log store.  C11's bound on routine        *)
(* compaction is checked here on every row.                                 *)
(***************************************************************************)
EXTENDS RaftOps, Json
CONSTANT N
VARIABLE row     \* <<first, snapIdx, lastLogIdx, trailing>>
R == CompactRange(row[1], row[2], row[3], row[4])
Init == /\ row \in (0..N) \X (0..N) \X (0..N) \X (0..N)
        /\ PrintT("ROW|" \o ToJson([first |-> row[1], snap |-> row[2], last |-> row[3], trailing |-> row[4],
                                    del |-> CompactRange(row[1], row[2], row[3], row[4])]))
Next == UNCHANGED row
Spec == Init /\ [][Next]_row
\* only entries at or below the snapshot are removed, and at least `trailing` entries stay when
\* the log (first..last) holds that many
Bound == R # <<0, 0>> =>
           /\ R[2] <= row[2]
           /\ R[2] <= row[3] - row[4]
           /\ R[1] = row[1]
           /\ (row[1] > 0 /\ row[3] >= row[1]) => (row[3] - R[2]) >= Min(row[4], row[3] - row[1] + 1)
=============================================================================
