SPECIFICATION Spec
CONSTANTS
  N = 5
  Cap = 3
  MaxVer = 2
  MaxBatch = 4
INVARIANTS Transparent Coherent
CHECK_DEADLOCK FALSE
