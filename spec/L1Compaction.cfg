SPECIFICATION Spec
CONSTANTS N = 6
INVARIANT Bound
CHECK_DEADLOCK FALSE
