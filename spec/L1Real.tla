------------------------------- MODULE L1Real -------------------------------
(***************************************************************************)
(* Judges what the REAL pure functions returned (harness/l1) row by row:    *)
(* the property predicates of C05 / C07 / C11 are evaluated on the real     *)
(* outputs (VIOL lines); equality with the transcribed operators is         *)
(* reported as NONCONF (informational).                                     *)
(***************************************************************************)
EXTENDS RaftOps, Json, IOUtils

Rows == ndJsonDeserialize(IOEnv.VERIF_L1_REAL)
Kind == IOEnv.VERIF_L1_KIND
VARIABLES l, nv, nn
vars == <<l, nv, nn>>

Say(kind, prop, pred, detail) ==
  PrintT(kind \o "|" \o prop \o "|" \o pred \o "|1|" \o ToString(l) \o "|" \o ToString(detail))
Judge(V, N) == /\ \A v \in V : Say("VIOL", v[1], v[2], v[3])
               /\ \A v \in N : Say("NONCONF", v[1], v[2], v[3])
               /\ nv' = nv + Cardinality(V) /\ nn' = nn + Cardinality(N)

Dom(f) == DOMAIN f
VotersOfCfg(cfg) == {cfg[i].id : i \in {j \in 1..Len(cfg) : cfg[j].suf = "V"}}

CommitmentRow(r) ==
  LET pre == r.pre  real == r.real
      grew == real.commit > pre.commit
      V == (IF real.commit >= pre.commit THEN {} ELSE {<<"C05", "L1CommitDecreased", r>>})
           \cup (IF grew /\ ~(2 * Cardinality({v \in Dom(real.match) : real.match[v] >= real.commit}) > Cardinality(Dom(real.match)))
                 THEN {<<"C05", "L1CommitWithoutVoterMajority", r>>} ELSE {})
           \cup (IF grew /\ real.commit < pre.start THEN {<<"C05", "L1CommitBelowStartIndex", r>>} ELSE {})
           \cup (IF r.op.k = "setcfg" /\ Dom(real.match) # {r.op.voters[i] : i \in 1..Len(r.op.voters)}
                 THEN {<<"C05", "L1NonVoterHasSlot", r>>} ELSE {})
           \cup (IF r.op.k = "match" /\ Dom(real.match) # Dom(pre.match) THEN {<<"C05", "L1MatchChangedVoterSet", r>>} ELSE {})
           \cup (IF r.op.k = "match" /\ \E v \in Dom(pre.match) : v # r.op.s /\ real.match[v] # pre.match[v]
                 THEN {<<"C05", "L1MatchTouchedOtherVoter", r>>} ELSE {})
           \cup (IF r.op.k = "match" /\ r.op.s \in Dom(pre.match) /\ real.match[r.op.s] # Max(pre.match[r.op.s], r.op.i)
                 THEN {<<"C05", "L1MatchNotMax", r>>} ELSE {})
      N == IF real.match = r.post.match /\ real.commit = r.post.commit THEN {} ELSE {<<"commitment", "operator", r>>}
  IN Judge(V, N)

ConfigurationRow(r) ==
  LET real == r.real
      ok == real.err = ""
      V == (IF ok /\ Cardinality((VotersOfCfg(real.cfg) \ VotersOfCfg(r.cur)) \cup (VotersOfCfg(r.cur) \ VotersOfCfg(real.cfg))) > 1
            THEN {<<"C07", "L1MoreThanOneVoterChanged", r>>} ELSE {})
           \cup (IF ok /\ VotersOfCfg(real.cfg) = {} THEN {<<"C07", "L1NoVoterLeft", r>>} ELSE {})
           \cup (IF ok /\ \E i, j \in 1..Len(real.cfg) : i # j /\ (real.cfg[i].id = real.cfg[j].id \/ real.cfg[i].addr = real.cfg[j].addr)
                 THEN {<<"C07", "L1DuplicateIdOrAddress", r>>} ELSE {})
           \cup (IF ok /\ \E i \in 1..Len(real.cfg) : real.cfg[i].id = "" \/ real.cfg[i].addr = ""
                 THEN {<<"C07", "L1EmptyIdOrAddress", r>>} ELSE {})
           \cup (IF r.req.prev > 0 /\ r.req.prev # r.curIndex /\ ok THEN {<<"C07", "L1StalePrevIndexAccepted", r>>} ELSE {})
           \cup (IF r.aliased THEN {<<"C07", "L1InputConfigurationMutated", r>>} ELSE {})
      N == IF real.err = r.res.err /\ (~ok \/ real.cfg = r.res.cfg) THEN {} ELSE {<<"nextConfiguration", "operator", r>>}
  IN Judge(V, N)

CompactionRow(r) ==
  LET d == r.real
      V == (IF d # <<0, 0>> /\ ~(d[2] <= r.snap /\ d[2] <= r.last - r.trailing)
            THEN {<<"C11", "L1CompactionPastSnapshotOrTrailing", r>>} ELSE {})
           \cup (IF d # <<0, 0>> /\ r.first > 0 /\ r.last >= r.first /\ (r.last - d[2]) < Min(r.trailing, r.last - r.first + 1)
                 THEN {<<"C11", "L1CompactionLeavesTooFew", r>>} ELSE {})
           \cup (IF d[1] = 9999 THEN {<<"C11", "L1SeveralDeletes", r>>} ELSE {})
      N == IF d = r.del THEN {} ELSE {<<"compactLogsWithTrailing", "operator", r>>}
  IN Judge(V, N)

\* C19: what LogCache returned (real) against what the wrapped store alone returns (alone), per edge of
\* the LogCache.tla state graph; `gets` is the model's prediction
LogCacheRow(r) ==
  LET V == (IF r.real = r.alone THEN {} ELSE {<<"C19", "GetLogDiffersFromBackend", r>>})
           \cup (IF r.first[1] = r.first[2] /\ r.last[1] = r.last[2] THEN {} ELSE {<<"C19", "FirstLastDiffersFromBackend", r>>})
           \cup (IF r.errc = r.errb THEN {} ELSE {<<"C19", "ErrorNotPropagated", r>>})
      N == IF r.real = r.gets THEN {} ELSE {<<"LogCache", "model", r>>}
  IN Judge(V, N)

\* C15: what a FRESH FileSnapshotStore lists / opens after the real store was stopped at a hook point
\* (r.at, r.variant) of history r.hist; facts are what the harness knows about each snapshot
FsNewer(a, b) == \/ a.term > b.term
                 \/ (a.term = b.term /\ a.index > b.index)
                 \/ (a.term = b.term /\ a.index = b.index /\ a.seq > b.seq)
FileSnapRow(r) ==
  LET F == {r.facts[i] : i \in 1..Len(r.facts)}
      L == r.listed
      names == {L[i].name : i \in 1..Len(L)}
      factOf(nm) == CHOOSE f \in F : f.name = nm
      known == \A i \in 1..Len(L) : \E f \in F : f.name = L[i].name
      V == (IF \A i \in 1..Len(L) : L[i].openok /\ L[i].contentok THEN {}
            ELSE {<<"C15", "ListedSnapshotNotComplete", <<r.at, r.variant, r.crash, L>>>>})
           \cup (IF \A i \in 1..Len(L) : L[i].openok => L[i].crcguards THEN {}
                 ELSE {<<"C15", "CorruptionNotDetected", <<r.at, r.variant, r.crash, L>>>>})
           \cup (IF known /\ \A i \in 1..Len(L) : factOf(L[i].name).mode = "close" /\ factOf(L[i].name).renamed THEN {}
                 ELSE {<<"C15", "CancelledOrInterruptedListed", <<r.at, r.variant, r.crash, L>>>>})
           \cup {<<"C15", "ClosedSnapshotNotListed", <<r.at, r.variant, r.crash, f.name, L>>>> :
                   f \in {x \in F : x.closed /\ x.name \notin names
                                  /\ Cardinality({i \in 1..Len(L) : known /\ FsNewer(factOf(L[i].name), x)}) < r.retain}}
           \cup (IF \A i \in 1..(Len(L) - 1) : known => FsNewer(factOf(L[i].name), factOf(L[i + 1].name)) THEN {}
                 ELSE {<<"C15", "NotNewestFirst", <<r.at, r.variant, r.crash, L>>>>})
           \cup (IF Len(L) <= r.retain THEN {} ELSE {<<"C15", "MoreThanRetainListed", <<r.at, r.variant, r.crash, L>>>>})
           \cup {<<"C15", "NewestSnapshotNotListed", <<r.at, r.variant, r.crash, f.name, L>>>> :
                   f \in {x \in F : x.synced /\ x.name \notin names
                                  /\ ~\E i \in 1..Len(L) : known /\ FsNewer(factOf(L[i].name), x)}}
      \* C11 relies on the same facts: a snapshot whose Close() returned is the durable base the log is compacted to
      V11 == {<<"C11", "DurableSnapshotLost", <<v[3][1], v[3][2], v[3][3], v[3][4]>>>> :
                v \in {x \in V : x[2] \in {"ClosedSnapshotNotListed", "NewestSnapshotNotListed"}}}
  IN Judge(V \cup V11, {})

\* C15, durability discipline observed with strace on the real store: r.events is the sequence of
\* <<kind, file>> system-call events of one Create..Close / Create..Cancel
FileSysRow(r) ==
  LET E == r.events
      Idx(k, f) == {i \in 1..Len(E) : E[i] = <<k, f>>}
      Last(k, f) == IF Idx(k, f) = {} THEN 0 ELSE CHOOSE i \in Idx(k, f) : \A j \in Idx(k, f) : j <= i
      ri == Last("rename", "dir")
      ret == Last("return", r.op)
      V == IF r.op = "close" THEN
             (IF ri > 0 THEN {} ELSE {<<"C15", "SysNoRename", E>>})
             \cup (IF Last("write", "state") > 0 /\ Last("write", "state") < Last("fsync", "state") /\ Last("fsync", "state") < ri THEN {}
                   ELSE {<<"C15", "SysStateNotSyncedBeforeRename", E>>})
             \cup (IF Last("write", "meta") > 0 /\ Last("write", "meta") < Last("fsync", "meta") /\ Last("fsync", "meta") < ri THEN {}
                   ELSE {<<"C15", "SysMetaNotSyncedBeforeRename", E>>})
             \cup (IF \E i \in Idx("fsync", "parent") : i > ri /\ i < ret THEN {} ELSE {<<"C15", "SysParentNotSyncedAfterRename", E>>})
             \cup (IF Last("fsync", "state") > Last("write", "meta") THEN {<<"C15", "SysFinalMetaBeforeStateSync", E>>} ELSE {})
             \* retention removes older snapshots only after the new one is durable (parent synced after the rename)
             \cup (IF \A i \in 1..Len(E) : (E[i][1] = "unlink" /\ i > ri) => \E j \in Idx("fsync", "parent") : j > ri /\ j < i THEN {}
                   ELSE {<<"C15", "SysReapBeforeParentSync", E>>})
           ELSE (IF ri = 0 THEN {} ELSE {<<"C15", "SysCancelRenamed", E>>})
                \cup (IF Idx("unlink", "dir") # {} THEN {} ELSE {<<"C15", "SysCancelLeftDirectory", E>>})
  IN Judge(V, {})

\* C16: events of one scenario on a real pair of NetworkTransports
NetTransRow(r) ==
  LET E == r.events
      Ev(k) == {E[i] : i \in {j \in 1..Len(E) : E[j].ev = k}}
      starts == Ev("CallStart")   recvs == Ev("ServerRecv")   replies == Ev("ServerReply")
      rets == Ev("CallReturn") \cup Ev("FutureDone")
      Has2(x, f) == f \in DOMAIN x
      V == {<<"C16", "RequestAltered", <<r.case, e.tag>>>> :
               e \in {x \in recvs : ~\E s \in starts : s.tag = x.tag /\ s.digest = x.digest
                                                       /\ (Has2(s, "body") => (Has2(x, "body") /\ x.body = s.body))}}
           \cup {<<"C16", "ResponseNotTheOneProduced", <<r.case, e.tag>>>> :
               e \in {x \in rets : Has2(x, "digest") /\ ~\E p \in replies : p.tag = x.tag /\ Has2(p, "digest") /\ p.digest = x.digest}}
           \cup {<<"C16", "ResponseOfAnotherRequest", <<r.case, e.tag, e.rtag>>>> :
               e \in {x \in rets : Has2(x, "rtag") /\ x.rtag # x.tag}}
           \cup {<<"C16", "HandlerErrorLostOrChanged", <<r.case, e.tag>>>> :
               e \in {x \in replies : Has2(x, "err") /\ \E y \in rets : y.tag = x.tag /\
                         (~Has2(y, "err") \/ (y.err # x.err /\ ~\E i \in 1..Len(r.ops) : r.ops[i].fault \in {"cutreq", "cutresp", "cutpooled"}))}}
           \* without a connection fault every exchange returns what its handler produced: an error only if the handler gave one
           \cup {<<"C16", "ErrorWithoutFault", <<r.case, e.tag, e.err>>>> :
               e \in {x \in rets : Has2(x, "err") /\ (\A i \in 1..Len(r.ops) : r.ops[i].fault \notin {"cutreq", "cutresp", "cutpooled"})
                                   /\ ~\E p \in replies : p.tag = x.tag /\ Has2(p, "err")}}
           \cup {<<"C16", "DeliveredTwice", <<r.case, e.tag>>>> :
               e \in {x \in recvs : Cardinality({y \in recvs : y.tag = x.tag}) > 1}}
           \cup {<<"C16", "PipelineOutOfOrder", <<r.case, e.tag>>>> :
               e \in {x \in Ev("FutureDone") : \E y \in Ev("FutureDone") : y.pipe = x.pipe /\ y.seq < x.seq /\ y.tag > x.tag}}
  IN Judge(V, {})

Init == l = 1 /\ nv = 0 /\ nn = 0
Next == /\ l <= Len(Rows) + 1
        /\ l' = l + 1
        /\ IF l = Len(Rows) + 1
           THEN PrintT("TRACE_END|1|" \o ToString(l) \o "|" \o ToString(nv) \o "|" \o ToString(nn)) /\ UNCHANGED <<nv, nn>>
           ELSE CASE Kind = "commitment"    -> CommitmentRow(Rows[l])
                  [] Kind = "configuration" -> ConfigurationRow(Rows[l])
                  [] Kind = "compaction"    -> CompactionRow(Rows[l])
                  [] Kind = "logcache"      -> LogCacheRow(Rows[l])
                  [] Kind = "filesnap"      -> FileSnapRow(Rows[l])
                  [] Kind = "filesys"       -> FileSysRow(Rows[l])
                  [] Kind = "nettrans"      -> NetTransRow(Rows[l])
Spec == Init /\ [][Next]_vars
=============================================================================
