--------------------------- MODULE L1Configuration ---------------------------
(***************************************************************************)
(* nextConfiguration + checkConfiguration (configuration.go) transcribed on *)
(* ordered server lists, enumerated over every configuration of a small     *)
(* universe and every change request.  Every row is printed as JSON and     *)
(* replayed on the real function through the verif-tagged wrapper; the C07  *)
(* input/output properties are checked here on every row.                   *)
(***************************************************************************)
EXTENDS Integers, Sequences, FiniteSets, TLC, Json

CONSTANTS Ids, Addrs      \* Ids: universe of server ids; Addrs: universe of addresses ("" = empty)

\* a server is [id, suf, addr]; a configuration is a sequence of servers
Sufs == {"V", "N", "S"}
Cmds == {"AddVoter", "AddNonvoter", "DemoteVoter", "RemoveServer", "Promote"}

Range(f) == {f[x] : x \in DOMAIN f}
IdxOf(cfg, id) == LET P == {i \in 1..Len(cfg) : cfg[i].id = id} IN IF P = {} THEN 0 ELSE CHOOSE i \in P : \A j \in P : i <= j

\* checkConfiguration: "" when valid, else the class of error (first one found in list order)
RECURSIVE CheckFrom(_, _, _, _)
CheckFrom(cfg, i, ids, addrs) ==
  IF i > Len(cfg) THEN (IF {j \in 1..Len(cfg) : cfg[j].suf = "V"} = {} THEN "novoter" ELSE "")
  ELSE IF cfg[i].id = "" THEN "emptyid"
  ELSE IF cfg[i].addr = "" THEN "emptyaddr"
  ELSE IF cfg[i].id \in ids THEN "dupid"
  ELSE IF cfg[i].addr \in addrs THEN "dupaddr"
  ELSE CheckFrom(cfg, i + 1, ids \cup {cfg[i].id}, addrs \cup {cfg[i].addr})
Check(cfg) == CheckFrom(cfg, 1, {}, {})

RemoveAt(s, i) == [j \in 1..(Len(s) - 1) |-> IF j < i THEN s[j] ELSE s[j + 1]]

\* req = [cmd, id, addr, prev]
Changed(cur, req) ==
  LET i == IdxOf(cur, req.id) IN
  CASE req.cmd = "AddVoter" ->
         IF i = 0 THEN Append(cur, [id |-> req.id, suf |-> "V", addr |-> req.addr])
         ELSE IF cur[i].suf = "V" THEN [cur EXCEPT ![i].addr = req.addr]
         ELSE [cur EXCEPT ![i] = [id |-> req.id, suf |-> "V", addr |-> req.addr]]
    [] req.cmd = "AddNonvoter" ->
         IF i = 0 THEN Append(cur, [id |-> req.id, suf |-> "N", addr |-> req.addr])
         ELSE IF cur[i].suf # "N" THEN [cur EXCEPT ![i].addr = req.addr]
         ELSE [cur EXCEPT ![i] = [id |-> req.id, suf |-> "N", addr |-> req.addr]]
    [] req.cmd = "DemoteVoter" -> IF i = 0 THEN cur ELSE [cur EXCEPT ![i].suf = "N"]
    [] req.cmd = "RemoveServer" -> IF i = 0 THEN cur ELSE RemoveAt(cur, i)
    [] req.cmd = "Promote" -> IF i # 0 /\ cur[i].suf = "S" THEN [cur EXCEPT ![i].suf = "V"] ELSE cur

\* result: [err, cfg]
NextConfiguration(cur, curIndex, req) ==
  IF req.prev > 0 /\ req.prev # curIndex THEN [err |-> "stale", cfg |-> <<>>]
  ELSE LET n == Changed(cur, req)
           e == Check(n)
       IN IF e # "" THEN [err |-> e, cfg |-> <<>>] ELSE [err |-> "", cfg |-> n]

VotersOf(cfg) == {cfg[i].id : i \in {j \in 1..Len(cfg) : cfg[j].suf = "V"}}

\* ---- enumeration: all VALID current configurations over Ids (each id absent or present with a
\* suffrage, address = a fixed address per id), in id order, and all requests
AddrOf == [i \in Ids |-> CHOOSE a \in Addrs : a # "" /\ TRUE]
IdSeq == CHOOSE s \in [1..Cardinality(Ids) -> Ids] : \A i, j \in 1..Cardinality(Ids) : i # j => s[i] # s[j]

RECURSIVE Build(_, _)
Build(assign, k) ==   \* assign: [Ids -> Sufs \cup {"A"}]
  IF k > Len(IdSeq) THEN <<>>
  ELSE IF assign[IdSeq[k]] = "A" THEN Build(assign, k + 1)
  ELSE <<[id |-> IdSeq[k], suf |-> assign[IdSeq[k]], addr |-> "addr-" \o IdSeq[k]]>> \o Build(assign, k + 1)

CurCfgs == {c \in {Build(a, 1) : a \in [Ids -> Sufs \cup {"A"}]} : Check(c) = ""}
ReqIds  == Ids \cup {"new", ""}
ReqAddrs == {"addr-" \o i : i \in Ids} \cup {"addr-new", ""}
Reqs == [cmd : Cmds, id : ReqIds, addr : ReqAddrs, prev : {0, 5, 4}]
CurIndex == 5

VARIABLE row
Init == /\ row \in [cur : CurCfgs, req : Reqs]
        /\ PrintT("ROW|" \o ToJson([cur |-> row.cur, curIndex |-> CurIndex, req |-> row.req,
                                    res |-> NextConfiguration(row.cur, CurIndex, row.req)]))
Next == UNCHANGED row
Spec == Init /\ [][Next]_row

\* ---- C07 on every row
Res == NextConfiguration(row.cur, CurIndex, row.req)
OneVoterAtATime ==
  Res.err = "" => Cardinality((VotersOf(Res.cfg) \ VotersOf(row.cur)) \cup (VotersOf(row.cur) \ VotersOf(Res.cfg))) <= 1
KeepsAVoter == Res.err = "" => VotersOf(Res.cfg) # {}
UniqueIdsAddrs ==
  Res.err = "" => /\ \A i, j \in 1..Len(Res.cfg) : i # j => Res.cfg[i].id # Res.cfg[j].id /\ Res.cfg[i].addr # Res.cfg[j].addr
                  /\ \A i \in 1..Len(Res.cfg) : Res.cfg[i].id # "" /\ Res.cfg[i].addr # ""
StaleRejected == (row.req.prev > 0 /\ row.req.prev # CurIndex) => Res.err = "stale"
=============================================================================
