------------------------------ MODULE MC_HRaft ------------------------------
EXTENDS HRaft
\* configuration tables for the bounded models
Tab3 == [c \in {"abc"} |-> [s \in {"a", "b", "c"} |-> "V"]]
TabM == ( "a"   :> [s \in {"a"} |-> "V"]
       @@ "ab"  :> [s \in {"a", "b"} |-> "V"]
       @@ "abc" :> [s \in {"a", "b", "c"} |-> "V"]
       @@ "abN" :> ("a" :> "V" @@ "b" :> "V" @@ "c" :> "N")
       @@ "bc"  :> [s \in {"b", "c"} |-> "V"] )
=============================================================================
