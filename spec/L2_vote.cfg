SPECIFICATION Spec
CONSTANTS
  Suite = "vote"
  MaxLen = 3
  MaxT = 3
CHECK_DEADLOCK FALSE
