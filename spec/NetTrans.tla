------------------------------ MODULE NetTrans ------------------------------
(***************************************************************************)
(* NetworkTransport (net_transport.go): callers (genericRPC,                 *)
(* InstallSnapshot, pipelined AppendEntries), a connection pool per target,  *)
(* the server loop (handleCommand: decode, hand to the consumer, wait for    *)
(* its answer, encode) and connection failures at a frame boundary or inside *)
(* a frame.  TLC enumerates scenarios (sequences of calls with an optional   *)
(* connection failure each, pool size, concurrent or sequential issue); the  *)
(* harness runs each on a REAL pair of NetworkTransports over in-memory      *)
(* pipes with generated field values and records CallStart / ServerRecv /    *)
(* ServerReply / CallReturn / FutureDone events; L1Real.tla (kind nettrans)  *)
(* judges C16 on them.                                                       *)
(***************************************************************************)
EXTENDS Integers, Sequences, FiniteSets, TLC, Json

CONSTANTS MaxOps, Pools

Kinds  == {"ae", "rv", "pv", "is", "tn", "pipe", "pipestall"}
Faults == {"none", "cutreq", "cutresp", "slowhandler", "handlererr", "cutpooled"}
Op == [kind : Kinds, fault : Faults]
\* "cutpooled": the exchange travels over a POOLED connection (one earlier exchange succeeded on it), the request reaches
\* the handler completely and the connection is closed before the first byte of the response (a clean end of file)
\* a connection failure makes no sense for every combination: keep the meaningful ones
\* "pipestall": more requests than the pipeline holds are sent while the consumer of the pipeline stalls for longer than
\* the transport timeout (back-pressure), then everything is consumed and more requests follow on the same pipeline
Ok(o) == /\ (o.kind = "pipe" => o.fault \in {"none", "cutreq", "cutresp", "handlererr"})
         /\ (o.kind = "pipestall" => o.fault = "none")
Scenarios == UNION {{s \in [1..n -> Op] : /\ \A i \in 1..n : Ok(s[i])
                                         /\ ((\E i \in 1..n : s[i].kind = "pipestall") => n = 1)} : n \in 1..MaxOps}

VARIABLE cs
Init == /\ cs \in [ops : Scenarios, pool : Pools, concurrent : BOOLEAN]
        /\ (cs.concurrent => Len(cs.ops) >= 2)
        /\ PrintT("CASE|" \o ToJson(cs))
Next == UNCHANGED cs
Spec == Init /\ [][Next]_cs
=============================================================================
