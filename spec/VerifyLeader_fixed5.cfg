SPECIFICATION Spec
CONSTANTS
  F = {f1, f2, f3, f4}
  Fresh = TRUE
INVARIANTS TypeOK NoStaleSuccess MajorityVouched
CHECK_DEADLOCK FALSE
