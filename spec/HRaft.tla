------------------------------- MODULE HRaft -------------------------------
(***************************************************************************)
(* Bounded model of hashicorp/raft AS IMPLEMENTED, for exhaustive checking  *)
(* with TLC.  The per-node handlers are the operators of RaftOps.tla -- the *)
(* same operators that HRaftTrace.tla evaluates against every handled RPC   *)
(* of the real code -- so what is model-checked here is what conformance    *)
(* checking ties to the implementation.                                     *)
(*                                                                          *)
(* Deviations of the code from the paper that are modelled on purpose:      *)
(*  - votes are refused while a leader is known (leader stickiness), unless *)
(*    the request carries the leadership-transfer flag;                     *)
(*  - pre-vote (RequestPreVote) before the real election;                   *)
(*  - the cached last-log / last-snapshot (llog, lsnap) are separate from   *)
(*    the durable log and are what handlers consult;                        *)
(*  - the leader counts its own write before switching to a configuration   *)
(*    it has just appended, and uses the new configuration at once;         *)
(*  - followers commit min(leaderCommit, lastIndex, last entry checked);    *)
(*  - InstallSnapshot keeps the follower's log (compaction by TrailingLogs);*)
(*  - heartbeats carry no previous entry and no commit index;               *)
(*  - leadership transfer: TimeoutNow is obeyed unconditionally (no term,   *)
(*    role or membership check), the target skips pre-vote for ONE election *)
(*    and its RequestVote overrides leader stickiness; the old leader       *)
(*    refuses writes and membership changes while the transfer lasts.       *)
(***************************************************************************)
EXTENDS RaftOps

CONSTANTS
  Server,        \* set of server ids (strings)
  InitCfg,       \* name of the bootstrap configuration
  CfgTab,        \* configuration table: name -> [server -> "V"|"N"]
  MaxTerm, MaxLog, MaxClient, MaxCrash, MaxMsgs, MaxSnap, MaxMember,
  MaxTimeout,    \* election timeouts (candidacies started) in a behaviour
  MaxDrop,       \* messages lost
  MaxMisc,       \* lease expiries + followers forgetting their leader
  MaxDup,        \* requests re-delivered by the network (a copy stays in flight and arrives late)
  MaxAppend, Trailing,
  Features       \* subset of {"prevote","crash","drop","dup","snapshot","transfer","member","client"}

VARIABLES
  ns,        \* [Server -> node record]: durable + volatile state of each server
  ld,        \* [Server -> leader-only state]: [cm (commitment), next (follower -> nextIndex)]
  cand,      \* [Server -> candidate-only state]: [pre (pre-vote grants), votes (grants), prephase]
  msgs,      \* set of messages in flight
  snaps,     \* [Server -> set of <<idx, term, cfg, cfgidx>>] durable snapshots
  fsm,       \* [Server -> sequence of <<index, entry>> handed to the FSM since the last restore] (prefix base in fsmBase)
  fsmBase,   \* [Server -> index the FSM state starts above (snapshot restored)]
  cnt,       \* bounded counters: [client, crash, snap, member, dup]
  leaders,   \* ghost: set of <<server, term>>
  grants,    \* ghost: set of <<voter, term, candidate>>
  committed, \* ghost: index -> entry, by the omniscient definition
  cterm      \* ghost: index -> term of the leader under which the entry became committed

vars == <<ns, ld, cand, msgs, snaps, fsm, fsmBase, cnt, leaders, grants, committed, cterm>>
view == <<ns, ld, cand, msgs, snaps, fsm, fsmBase, cnt>>

Has(f) == f \in Features
EmptyFn == [x \in {} |-> 0]
Bootstrap == <<1, "cfg", InitCfg>>

NodeInit == [up |-> TRUE, term |-> 1, ct |-> 1, role |-> "F", leader |-> "", vt |-> 0, vc |-> "",
             log |-> [i \in {1} |-> Bootstrap], llog |-> <<1, 1>>, lsnap |-> <<0, 0>>, commit |-> 0, applied |-> 0,
             cl |-> InitCfg, cli |-> 1, cc |-> NoCfg, cci |-> 0, xfer |-> FALSE, lxfer |-> FALSE]

Init ==
  /\ ns = [n \in Server |-> IF n \in CfgMembers(CfgTab, InitCfg) THEN NodeInit
                            ELSE [NodeInit EXCEPT !.term = 0, !.ct = 0, !.log = EmptyFn, !.llog = <<0, 0>>, !.cl = NoCfg, !.cli = 0]]
  /\ ld = [n \in Server |-> [cm |-> CNew({}, 0), next |-> EmptyFn]]
  /\ cand = [n \in Server |-> [pre |-> {}, votes |-> {}, prephase |-> FALSE]]
  /\ msgs = {}
  /\ snaps = [n \in Server |-> {}]
  /\ fsm = [n \in Server |-> <<>>]
  /\ fsmBase = [n \in Server |-> 0]
  /\ cnt = [client |-> 0, crash |-> 0, snap |-> 0, member |-> 0, dup |-> 0, timeout |-> 0, drop |-> 0, misc |-> 0, xfer |-> 0]
  /\ leaders = {} /\ grants = {} /\ committed = EmptyFn /\ cterm = EmptyFn

Send(S) == msgs' = msgs \cup S
Reply(m, r) == msgs' = (msgs \ {m}) \cup {r}
Room(k) == Cardinality(msgs) + k <= MaxMsgs
MaxXfer == 1     \* leadership transfers started in a behaviour

NewestSnap(n) == IF snaps[n] = {} THEN <<0, 0, NoCfg, 0>>
                 ELSE CHOOSE s \in snaps[n] : \A u \in snaps[n] : u[2] < s[2] \/ (u[2] = s[2] /\ u[1] <= s[1])

-----------------------------------------------------------------------------
(* raft.go runFollower heartbeat timeout -> runCandidate *)
CanCampaign(n) ==
  /\ ns[n].up /\ ns[n].role \in {"F", "C"}
  /\ ns[n].cli # 0
  /\ IsVoter(CfgTab, ns[n].cl, n)
  /\ ns[n].term < MaxTerm

VoteReq(n, t, pre) == [mt |-> (IF pre THEN "pv" ELSE "rv"), src |-> n,
                       body |-> [term |-> t, cand |-> n, lli |-> LastEntry(ns[n])[1], llt |-> LastEntry(ns[n])[2],
                                 xfer |-> ns[n].xfer]]

\* electSelf: bump and persist the term, ask every other voter; the self vote is cast and persisted only when
\* the server is a voter of its own latest configuration (a TimeoutNow can reach a server that is not)
ElectSelf(n, x) ==
  LET t == ns[n].term + 1
      others == Voters(CfgTab, ns[n].cl) \ {n}
      iv == IsVoter(CfgTab, ns[n].cl, n)
      me0 == [ns[n] EXCEPT !.role = "C", !.leader = "", !.term = t, !.ct = t, !.xfer = x]
      me == IF iv THEN [me0 EXCEPT !.vt = t, !.vc = n] ELSE me0
  IN /\ ns' = [ns EXCEPT ![n] = me]
     /\ cand' = [cand EXCEPT ![n] = [pre |-> {}, votes |-> (IF iv THEN {n} ELSE {}), prephase |-> FALSE]]
     /\ grants' = IF iv THEN grants \cup {<<n, t, n>>} ELSE grants
     /\ msgs' = msgs \cup {[VoteReq(n, t, FALSE) EXCEPT !.body.term = t, !.body.xfer = x] @@ [dst |-> d] : d \in others}

Timeout(n) ==
  /\ CanCampaign(n) /\ cnt.timeout < MaxTimeout
  /\ cnt' = [cnt EXCEPT !.timeout = @ + 1]
  /\ Room(Cardinality(Voters(CfgTab, ns[n].cl)) - 1)
  /\ IF Has("prevote")
     THEN \* preElectSelf: propose term+1 without changing state; the transfer flag lasts for one runCandidate only
          /\ ns' = [ns EXCEPT ![n].role = "C", ![n].leader = "", ![n].xfer = FALSE]
          /\ cand' = [cand EXCEPT ![n] = [pre |-> {n}, votes |-> {}, prephase |-> TRUE]]
          /\ msgs' = msgs \cup {VoteReq(n, ns[n].term + 1, TRUE) @@ [dst |-> d] : d \in Voters(CfgTab, ns[n].cl) \ {n}}
          /\ UNCHANGED grants
     ELSE ElectSelf(n, FALSE)
  /\ UNCHANGED <<ld, snaps, fsm, fsmBase, leaders>>

BecomeLeader(n, nsl) ==   \* setupLeaderState + dispatch of the no-op; nsl is n's record just before
  LET last == LastIndex(nsl)
      noop == <<nsl.term, "noop", "noop">>
      me == [nsl EXCEPT !.role = "L", !.leader = n, !.xfer = FALSE, !.lxfer = FALSE,
                        !.log = [i \in (DOMAIN nsl.log) \cup {last + 1} |-> IF i = last + 1 THEN noop ELSE nsl.log[i]],
                        !.llog = <<last + 1, nsl.term>>]
      cm0 == CNew(Voters(CfgTab, nsl.cl), last + 1)
  IN /\ ns' = [ns EXCEPT ![n] = me]
     /\ ld' = [ld EXCEPT ![n] = [cm |-> CMatch(cm0, n, last + 1),
                                 next |-> [f \in CfgMembers(CfgTab, nsl.cl) \ {n} |-> last + 1]]]
     /\ leaders' = leaders \cup {<<n, nsl.term>>}

\* a candidate that is the only voter: its own (pre-)vote arrives on the vote channel and is a quorum
SoloProgress(n) ==
  /\ ns[n].up /\ ns[n].role = "C" /\ QuorumSize(CfgTab, ns[n].cl) = 1
  /\ IF cand[n].prephase
     THEN /\ cand[n].pre = {n} /\ ns[n].term < MaxTerm
          /\ LET t == ns[n].term + 1
             IN /\ ns' = [ns EXCEPT ![n] = [@ EXCEPT !.term = t, !.ct = t, !.vt = t, !.vc = n]]
                /\ cand' = [cand EXCEPT ![n] = [pre |-> {}, votes |-> {n}, prephase |-> FALSE]]
                /\ grants' = grants \cup {<<n, t, n>>}
                /\ UNCHANGED <<ld, leaders>>
     ELSE /\ cand[n].votes = {n} /\ LastIndex(ns[n]) < MaxLog
          /\ BecomeLeader(n, ns[n])
          /\ UNCHANGED <<cand, grants>>
  /\ UNCHANGED <<msgs, snaps, fsm, fsmBase, cnt>>

-----------------------------------------------------------------------------
(* vote and pre-vote handlers: RaftOps.RVHandle / PVHandle *)
HandleVoteReq(n, m) ==
  /\ ns[n].up /\ m.dst = n /\ m.mt \in {"rv", "pv"}
  /\ IF m.mt = "rv"
     THEN LET h == RVHandle(ns[n], m.body, CfgTab)
          IN /\ ns' = [ns EXCEPT ![n] = h.st]
             /\ grants' = IF h.resp.granted THEN grants \cup {<<n, m.body.term, m.body.cand>>} ELSE grants
             /\ Reply(m, [mt |-> "rvr", src |-> n, dst |-> m.src, body |-> h.resp @@ [for |-> m.body.term]])
     ELSE /\ UNCHANGED <<ns, grants>>
          /\ Reply(m, [mt |-> "pvr", src |-> n, dst |-> m.src, body |-> PVHandle(ns[n], m.body, CfgTab) @@ [for |-> m.body.term]])
  /\ UNCHANGED <<ld, cand, snaps, fsm, fsmBase, cnt, leaders>>

StepDown(nd, t) == [nd EXCEPT !.role = "F", !.leader = "", !.term = t, !.ct = t]

HandleVoteResp(n, m) ==
  /\ ns[n].up /\ m.dst = n /\ m.mt \in {"rvr", "pvr"}
  /\ msgs' = msgs \ {m}
  /\ IF ns[n].role # "C" THEN UNCHANGED <<ns, ld, cand, leaders, grants>>
     ELSE IF m.mt = "pvr" THEN
        IF ~cand[n].prephase \/ m.body.for # ns[n].term + 1 THEN UNCHANGED <<ns, ld, cand, leaders, grants>>
        ELSE IF m.body.term > ns[n].term + 1 THEN
             /\ ns' = [ns EXCEPT ![n] = StepDown(ns[n], m.body.term)]
             /\ UNCHANGED <<ld, cand, leaders, grants>>
        ELSE LET pre2 == IF m.body.granted THEN cand[n].pre \cup {m.src} ELSE cand[n].pre
             IN IF Cardinality(pre2) >= QuorumSize(CfgTab, ns[n].cl)
                THEN \* pre-vote won: the real election (messages added on top of the removal above)
                     LET t == ns[n].term + 1
                         me == [ns[n] EXCEPT !.term = t, !.ct = t, !.vt = t, !.vc = n]
                     IN /\ ns' = [ns EXCEPT ![n] = me]
                        /\ cand' = [cand EXCEPT ![n] = [pre |-> {}, votes |-> {n}, prephase |-> FALSE]]
                        /\ grants' = grants \cup {<<n, t, n>>}
                        /\ UNCHANGED <<ld, leaders>>
                ELSE /\ cand' = [cand EXCEPT ![n].pre = pre2]
                     /\ UNCHANGED <<ns, ld, leaders, grants>>
     ELSE \* rvr
        IF cand[n].prephase \/ m.body.for # ns[n].term THEN UNCHANGED <<ns, ld, cand, leaders, grants>>
        ELSE IF m.body.term > ns[n].term THEN
             /\ ns' = [ns EXCEPT ![n] = StepDown(ns[n], m.body.term)]
             /\ UNCHANGED <<ld, cand, leaders, grants>>
        ELSE LET v2 == IF m.body.granted THEN cand[n].votes \cup {m.src} ELSE cand[n].votes
             IN IF Cardinality(v2) >= QuorumSize(CfgTab, ns[n].cl) /\ LastIndex(ns[n]) < MaxLog
                THEN /\ BecomeLeader(n, ns[n])
                     /\ cand' = [cand EXCEPT ![n].votes = v2]
                     /\ UNCHANGED grants
                ELSE /\ cand' = [cand EXCEPT ![n].votes = v2]
                     /\ UNCHANGED <<ns, ld, leaders, grants>>
  /\ UNCHANGED <<snaps, fsm, fsmBase, cnt>>

\* after winning the pre-vote the vote requests are sent as a separate step (the goroutines of askPeer)
SendVoteReqs(n) ==
  /\ ns[n].up /\ ns[n].role = "C" /\ ~cand[n].prephase /\ cand[n].votes = {n}
  /\ LET S == {VoteReq(n, ns[n].term, FALSE) @@ [dst |-> d] : d \in Voters(CfgTab, ns[n].cl) \ {n}}
     IN S \ msgs # {} /\ Room(Cardinality(S)) /\ Send(S)
  /\ UNCHANGED <<ns, ld, cand, snaps, fsm, fsmBase, cnt, leaders, grants>>

-----------------------------------------------------------------------------
(* leader: client request (dispatchLogs), replication, commit *)
AppendLocal(nd, e) ==
  LET i == LastIndex(nd) + 1
  IN [nd EXCEPT !.log = [k \in (DOMAIN nd.log) \cup {i} |-> IF k = i THEN e ELSE nd.log[k]], !.llog = <<i, e[1]>>]

ClientRequest(n) ==
  /\ Has("client") /\ ns[n].up /\ ns[n].role = "L" /\ cnt.client < MaxClient /\ LastIndex(ns[n]) < MaxLog
  /\ ~ns[n].lxfer                       \* ErrLeadershipTransferInProgress
  /\ LET e == <<ns[n].term, "cmd", "c" \o ToString(cnt.client + 1)>>
         me == AppendLocal(ns[n], e)
     IN /\ ns' = [ns EXCEPT ![n] = me]
        /\ ld' = [ld EXCEPT ![n].cm = CMatch(@, n, LastIndex(me))]
  /\ cnt' = [cnt EXCEPT !.client = @ + 1]
  /\ UNCHANGED <<cand, msgs, snaps, fsm, fsmBase, leaders, grants>>

\* setupAppendEntries: previous entry from the snapshot boundary or the log; ErrLogNotFound -> snapshot
PrevOf(nd, next) ==
  IF next = 1 THEN <<0, 0>>
  ELSE IF next - 1 = nd.lsnap[1] THEN nd.lsnap
  ELSE IF (next - 1) \in DOMAIN nd.log THEN <<next - 1, nd.log[next - 1][1]>>
  ELSE <<-1, -1>>
BatchHi(nd, next) == Min(next + MaxAppend - 1, nd.llog[1])
BatchMissing(nd, next) == \E i \in next..BatchHi(nd, next) : i \notin DOMAIN nd.log
BatchOf(nd, next) ==
  LET hi == BatchHi(nd, next)
  IN [k \in 1..(IF hi >= next THEN hi - next + 1 ELSE 0) |-> <<next + k - 1>> \o nd.log[next + k - 1]]

SendAppend(n, f) ==
  /\ ns[n].up /\ ns[n].role = "L" /\ f \in DOMAIN ld[n].next /\ Room(1)
  /\ LET next == ld[n].next[f]
         prev == PrevOf(ns[n], next)
         es == BatchOf(ns[n], next)
     IN IF prev[1] = -1 \/ BatchMissing(ns[n], next)
        THEN \* sendLatestSnapshot
             /\ Has("snapshot") /\ snaps[n] # {}
             /\ LET s == NewestSnap(n)
                IN Send({[mt |-> "is", src |-> n, dst |-> f,
                          body |-> [term |-> ns[n].term, leader |-> n, idx |-> s[1], sterm |-> s[2], cfg |-> s[3], cfgidx |-> s[4]]]})
        ELSE Send({[mt |-> "ae", src |-> n, dst |-> f,
                    body |-> [term |-> ns[n].term, leader |-> n, prev |-> prev[1], prevterm |-> prev[2],
                              commit |-> ns[n].commit, entries |-> es]]})
  /\ UNCHANGED <<ns, ld, cand, snaps, fsm, fsmBase, cnt, leaders, grants>>

\* what the FSM is handed when `applied` moves from a to b on a log lg (processLogs reads the LOG STORE)
Applies(lg, a, b) ==
  LET RECURSIVE go(_)
      go(i) == IF i > b THEN <<>>
               ELSE IF i \in DOMAIN lg /\ lg[i][2] = "cmd" THEN <<<<i, lg[i]>>>> \o go(i + 1) ELSE go(i + 1)
  IN go(a + 1)

HandleAppend(n, m) ==
  /\ ns[n].up /\ m.dst = n /\ m.mt = "ae"
  /\ LET h == AEHandle(ns[n], m.body)
     IN /\ ns' = [ns EXCEPT ![n] = h.st]
        /\ fsm' = [fsm EXCEPT ![n] = @ \o Applies(h.st.log, ns[n].applied, h.st.applied)]
        /\ Reply(m, [mt |-> "aer", src |-> n, dst |-> m.src,
                     body |-> h.resp @@ [reqterm |-> m.body.term,
                                         lastsent |-> (IF Len(m.body.entries) = 0 THEN 0 ELSE m.body.entries[Len(m.body.entries)][1])]])
  /\ UNCHANGED <<ld, cand, snaps, fsmBase, cnt, leaders, grants>>

HandleAppendResp(n, m) ==
  /\ ns[n].up /\ m.dst = n /\ m.mt = "aer"
  /\ msgs' = msgs \ {m}
  /\ IF ns[n].role # "L" \/ m.body.reqterm # ns[n].term \/ m.src \notin DOMAIN ld[n].next
     THEN UNCHANGED <<ns, ld>>
     ELSE IF m.body.term > m.body.reqterm
          THEN ns' = [ns EXCEPT ![n] = [@ EXCEPT !.role = "F", !.leader = ""]] /\ UNCHANGED ld      \* handleStaleTerm -> stepDown
          ELSE IF m.body.ok
               THEN /\ ld' = [ld EXCEPT ![n] = IF m.body.lastsent = 0 THEN @
                                               ELSE [cm |-> CMatch(@.cm, m.src, m.body.lastsent),
                                                     next |-> [@.next EXCEPT ![m.src] = m.body.lastsent + 1]]]
                    /\ UNCHANGED ns
               ELSE /\ ld' = [ld EXCEPT ![n].next[m.src] = Max(Min(@ - 1, m.body.last + 1), 1)]
                    /\ UNCHANGED ns
  /\ UNCHANGED <<cand, snaps, fsm, fsmBase, cnt, leaders, grants>>

\* leaderLoop <-commitCh
AdvanceCommit(n) ==
  /\ ns[n].up /\ ns[n].role = "L" /\ ld[n].cm.commit > ns[n].commit
  /\ LET c == ld[n].cm.commit
         a == [ns[n] EXCEPT !.commit = c]
         b == IF a.cli > ns[n].commit /\ a.cli <= c THEN [a EXCEPT !.cc = a.cl, !.cci = a.cli] ELSE a
         d == [b EXCEPT !.applied = Max(@, c)]
         \* removed from the committed configuration: step down
         e == IF ~IsVoter(CfgTab, d.cc, n) /\ d.cci = d.cli /\ d.cli > ns[n].commit THEN [d EXCEPT !.role = "F", !.leader = ""] ELSE d
     IN /\ ns' = [ns EXCEPT ![n] = e]
        /\ fsm' = [fsm EXCEPT ![n] = @ \o Applies(ns[n].log, ns[n].applied, c)]
  /\ UNCHANGED <<ld, cand, msgs, snaps, fsmBase, cnt, leaders, grants>>

-----------------------------------------------------------------------------
(* snapshots *)
TakeSnapshot(n) ==
  /\ Has("snapshot") /\ ns[n].up /\ cnt.snap < MaxSnap
  /\ ns[n].applied > ns[n].lsnap[1] /\ ns[n].applied \in DOMAIN ns[n].log
  /\ ns[n].applied >= ns[n].cci           \* refusal rule of takeSnapshot
  /\ LET i == ns[n].applied
         t == ns[n].log[i][1]
         rng == CompactRange(LogFirst(ns[n].log), i, ns[n].llog[1], Trailing)
     IN /\ snaps' = [snaps EXCEPT ![n] = @ \cup {<<i, t, ns[n].cc, ns[n].cci>>}]
        /\ ns' = [ns EXCEPT ![n].lsnap = <<i, t>>,
                            ![n].log = IF rng = <<0, 0>> THEN @ ELSE DelRange(@, rng[1], rng[2])]
  /\ cnt' = [cnt EXCEPT !.snap = @ + 1]
  /\ UNCHANGED <<ld, cand, msgs, fsm, fsmBase, leaders, grants>>

HandleInstall(n, m) ==
  /\ ns[n].up /\ m.dst = n /\ m.mt = "is"
  /\ LET h == ISHandle(ns[n], m.body, FALSE, Trailing)
     IN /\ ns' = [ns EXCEPT ![n] = h.st]
        /\ IF h.resp.ok
           THEN /\ snaps' = [snaps EXCEPT ![n] = @ \cup {<<m.body.idx, m.body.sterm, m.body.cfg, m.body.cfgidx>>}]
                /\ fsm' = [fsm EXCEPT ![n] = <<>>] /\ fsmBase' = [fsmBase EXCEPT ![n] = m.body.idx]
           ELSE UNCHANGED <<snaps, fsm, fsmBase>>
        /\ Reply(m, [mt |-> "isr", src |-> n, dst |-> m.src, body |-> h.resp @@ [reqterm |-> m.body.term, idx |-> m.body.idx]])
  /\ UNCHANGED <<ld, cand, cnt, leaders, grants>>

HandleInstallResp(n, m) ==
  /\ ns[n].up /\ m.dst = n /\ m.mt = "isr"
  /\ msgs' = msgs \ {m}
  /\ IF ns[n].role # "L" \/ m.body.reqterm # ns[n].term \/ m.src \notin DOMAIN ld[n].next THEN UNCHANGED <<ns, ld>>
     ELSE IF m.body.term > m.body.reqterm THEN ns' = [ns EXCEPT ![n] = [@ EXCEPT !.role = "F", !.leader = ""]] /\ UNCHANGED ld
     ELSE IF m.body.ok THEN /\ ld' = [ld EXCEPT ![n] = [cm |-> CMatch(@.cm, m.src, m.body.idx), next |-> [@.next EXCEPT ![m.src] = m.body.idx + 1]]]
                            /\ UNCHANGED ns
     ELSE UNCHANGED <<ns, ld>>
  /\ UNCHANGED <<cand, snaps, fsm, fsmBase, cnt, leaders, grants>>

-----------------------------------------------------------------------------
(* membership: appendConfigurationEntry, gated by configurationChangeChIfStable *)
ChangeConfig(n, c2) ==
  /\ Has("member") /\ ns[n].up /\ ns[n].role = "L" /\ cnt.member < MaxMember /\ LastIndex(ns[n]) < MaxLog
  /\ ~ns[n].lxfer
  /\ ns[n].cli = ns[n].cci /\ ns[n].commit >= ld[n].cm.start        \* the gate
  /\ c2 \in DOMAIN CfgTab /\ c2 # ns[n].cl /\ c2 # NoCfg
  /\ Cardinality((Voters(CfgTab, c2) \ Voters(CfgTab, ns[n].cl)) \cup (Voters(CfgTab, ns[n].cl) \ Voters(CfgTab, c2))) <= 1
  /\ LET e == <<ns[n].term, "cfg", c2>>
         me0 == AppendLocal(ns[n], e)
         i == LastIndex(me0)
         me == [me0 EXCEPT !.cl = c2, !.cli = i]
         cm1 == CMatch(ld[n].cm, n, i)                       \* own write counted under the OLD voters first
         cm2 == CSetCfg(cm1, Voters(CfgTab, c2))             \* then the new configuration is used at once
     IN /\ ns' = [ns EXCEPT ![n] = me]
        /\ ld' = [ld EXCEPT ![n] = [cm |-> cm2,
                                    next |-> [f \in CfgMembers(CfgTab, c2) \ {n} |->
                                                IF f \in DOMAIN ld[n].next THEN ld[n].next[f] ELSE i]]]
  /\ cnt' = [cnt EXCEPT !.member = @ + 1]
  /\ UNCHANGED <<cand, msgs, snaps, fsm, fsmBase, leaders, grants>>

-----------------------------------------------------------------------------
(* leadership transfer: api.go LeadershipTransfer -> leaderLoop -> leadershipTransfer(): the target is a voter of
   the leader's latest configuration; once its nextIndex is beyond the leader's last index it is sent TimeoutNow *)
TransferLeadership(n, f) ==
  /\ Has("transfer") /\ ns[n].up /\ ns[n].role = "L" /\ ~ns[n].lxfer /\ cnt.xfer < MaxXfer
  /\ f # n /\ IsVoter(CfgTab, ns[n].cl, f) /\ f \in DOMAIN ld[n].next
  /\ ld[n].next[f] > LastIndex(ns[n]) /\ Room(1)
  /\ ns' = [ns EXCEPT ![n].lxfer = TRUE]
  /\ Send({[mt |-> "tn", src |-> n, dst |-> f, body |-> [term |-> ns[n].term]]})
  /\ cnt' = [cnt EXCEPT !.xfer = @ + 1]
  /\ UNCHANGED <<ld, cand, snaps, fsm, fsmBase, leaders, grants>>

\* the transfer is given up after an election timeout (or when leadership is lost: BecomeLeader / Restart reset it)
TransferEnds(n) ==
  /\ ns[n].up /\ ns[n].lxfer
  /\ ns' = [ns EXCEPT ![n].lxfer = FALSE]
  /\ UNCHANGED <<ld, cand, msgs, snaps, fsm, fsmBase, cnt, leaders, grants>>

\* raft.go timeoutNow: no check of any kind; candidate state, transfer flag; runCandidate then skips the pre-vote
HandleTimeoutNow(n, m) ==
  /\ ns[n].up /\ m.dst = n /\ m.mt = "tn" /\ ns[n].term < MaxTerm
  /\ Cardinality(msgs) - 1 + Cardinality(Voters(CfgTab, ns[n].cl) \ {n}) <= MaxMsgs
  /\ LET t == ns[n].term + 1
         others == Voters(CfgTab, ns[n].cl) \ {n}
         iv == IsVoter(CfgTab, ns[n].cl, n)
         me0 == [ns[n] EXCEPT !.role = "C", !.leader = "", !.term = t, !.ct = t, !.xfer = TRUE]
         me == IF iv THEN [me0 EXCEPT !.vt = t, !.vc = n] ELSE me0
     IN /\ ns' = [ns EXCEPT ![n] = me]
        /\ cand' = [cand EXCEPT ![n] = [pre |-> {}, votes |-> (IF iv THEN {n} ELSE {}), prephase |-> FALSE]]
        /\ grants' = IF iv THEN grants \cup {<<n, t, n>>} ELSE grants
        /\ msgs' = (msgs \ {m}) \cup {[VoteReq(n, t, FALSE) EXCEPT !.body.term = t, !.body.xfer = TRUE] @@ [dst |-> d] : d \in others}
  /\ UNCHANGED <<ld, snaps, fsm, fsmBase, cnt, leaders>>

-----------------------------------------------------------------------------
(* environment *)
Crash(n) ==
  /\ Has("crash") /\ ns[n].up /\ cnt.crash < MaxCrash
  /\ ns' = [ns EXCEPT ![n].up = FALSE]
  /\ cnt' = [cnt EXCEPT !.crash = @ + 1]
  /\ UNCHANGED <<ld, cand, msgs, snaps, fsm, fsmBase, leaders, grants>>

\* NewRaft on the durable image: term, vote record, log, newest snapshot, configuration scan
Restart(n) ==
  /\ ~ns[n].up
  /\ LET s == NewestSnap(n)
         lg == ns[n].log
         ll == LogLast(lg)
         C == {k \in DOMAIN lg : k > s[1] /\ lg[k][2] = "cfg"}
         cl2 == IF C # {} THEN <<MaxSet(C), lg[MaxSet(C)][3]>> ELSE <<s[4], s[3]>>
         C1 == {k \in C : k < MaxSet(C)}
         cc2 == IF C = {} THEN <<s[4], s[3]>> ELSE IF C1 # {} THEN <<MaxSet(C1), lg[MaxSet(C1)][3]>> ELSE <<s[4], s[3]>>
     IN /\ ns' = [ns EXCEPT ![n] = [ns[n] EXCEPT !.up = TRUE, !.role = "F", !.leader = "", !.term = ns[n].ct, !.xfer = FALSE, !.lxfer = FALSE,
                                             !.llog = IF ll = 0 THEN <<0, 0>> ELSE <<ll, lg[ll][1]>>,
                                             !.lsnap = <<s[1], s[2]>>, !.commit = 0, !.applied = s[1],
                                             !.cl = cl2[2], !.cli = cl2[1], !.cc = cc2[2], !.cci = cc2[1]]]
        /\ fsm' = [fsm EXCEPT ![n] = <<>>] /\ fsmBase' = [fsmBase EXCEPT ![n] = s[1]]
  /\ ld' = [ld EXCEPT ![n] = [cm |-> CNew({}, 0), next |-> EmptyFn]]
  /\ cand' = [cand EXCEPT ![n] = [pre |-> {}, votes |-> {}, prephase |-> FALSE]]
  /\ UNCHANGED <<msgs, snaps, cnt, leaders, grants>>

Drop(m) == /\ Has("drop") /\ cnt.drop < MaxDrop /\ msgs' = msgs \ {m}
           /\ cnt' = [cnt EXCEPT !.drop = @ + 1]
           /\ UNCHANGED <<ns, ld, cand, snaps, fsm, fsmBase, leaders, grants>>

\* the network duplicates a request: the copy stays in flight and may be delivered arbitrarily late
Duplicate(m) ==
  /\ Has("dup") /\ cnt.dup < MaxDup /\ "copy" \notin DOMAIN m /\ m.mt \in {"ae", "is"} /\ Room(1)
  /\ msgs' = msgs \cup {[x \in (DOMAIN m) \cup {"copy"} |-> IF x = "copy" THEN 1 ELSE m[x]]}
  /\ cnt' = [cnt EXCEPT !.dup = @ + 1]
  /\ UNCHANGED <<ns, ld, cand, snaps, fsm, fsmBase, leaders, grants>>

\* a leader that cannot reach a quorum steps down (lease), abstracted as a free step
LeaseExpire(n) ==
  /\ ns[n].up /\ ns[n].role = "L" /\ cnt.misc < MaxMisc
  /\ ns' = [ns EXCEPT ![n] = [@ EXCEPT !.role = "F", !.leader = ""]]
  /\ cnt' = [cnt EXCEPT !.misc = @ + 1]
  /\ UNCHANGED <<ld, cand, msgs, snaps, fsm, fsmBase, leaders, grants>>

\* followers forget the leader on heartbeat timeout (precondition of voting again)
ForgetLeader(n) ==
  /\ ns[n].up /\ ns[n].role = "F" /\ ns[n].leader # "" /\ cnt.misc < MaxMisc
  /\ ns' = [ns EXCEPT ![n].leader = ""]
  /\ cnt' = [cnt EXCEPT !.misc = @ + 1]
  /\ UNCHANGED <<ld, cand, msgs, snaps, fsm, fsmBase, leaders, grants>>

-----------------------------------------------------------------------------
(* the omniscient commit definition, accumulated into `committed` by every step *)
SnapIdx(n) == NewestSnap(n)[1]
HoldsThroughM(v, l, j) ==
  \A i \in 1..j : \/ i <= SnapIdx(v)
                  \/ (i \in DOMAIN ns[v].log /\ i \in DOMAIN ns[l].log /\ ns[v].log[i] = ns[l].log[i])
                  \/ (i \in DOMAIN ns[v].log /\ i \notin DOMAIN ns[l].log /\ i \in DOMAIN committed /\ ns[v].log[i] = committed[i])
\* The leader counts its own write of a configuration entry under the configuration it had BEFORE
\* appending it (commitment.match in dispatchLogs precedes commitment.setConfiguration), so entries up to
\* and including an uncommitted latest configuration entry may also be committed by a majority of the
\* previous configuration (cc, while cci < cli).
CommittedNow ==
  LET L == {l \in Server : ns[l].up /\ ns[l].role = "L"}
      Maj(l, vs, j) == 2 * Cardinality({v \in vs : HoldsThroughM(v, l, j)}) > Cardinality(vs)
      C(l) == LET J == {j \in DOMAIN ns[l].log : ns[l].log[j][1] = ns[l].term /\
                           (\/ Maj(l, Voters(CfgTab, ns[l].cl), j)
                            \/ (ns[l].cci < ns[l].cli /\ j <= ns[l].cli /\ ns[l].cc # NoCfg /\ Maj(l, Voters(CfgTab, ns[l].cc), j)))}
              IN IF J = {} THEN {} ELSE {<<i, ns[l].log[i], ns[l].term>> : i \in {k \in DOMAIN ns[l].log : k <= MaxSet(J)}}
  IN UNION {C(l) : l \in L}

Step ==
  \/ \E n \in Server : Timeout(n) \/ SendVoteReqs(n) \/ ClientRequest(n) \/ AdvanceCommit(n) \/ TakeSnapshot(n)
                       \/ Crash(n) \/ Restart(n) \/ LeaseExpire(n) \/ ForgetLeader(n) \/ SoloProgress(n) \/ TransferEnds(n)
  \/ \E n \in Server, f \in Server : SendAppend(n, f) \/ TransferLeadership(n, f)
  \/ \E n \in Server, c2 \in DOMAIN CfgTab : ChangeConfig(n, c2)
  \/ \E m \in msgs : \/ HandleVoteReq(m.dst, m) \/ HandleVoteResp(m.dst, m)
                     \/ HandleAppend(m.dst, m) \/ HandleAppendResp(m.dst, m)
                     \/ HandleInstall(m.dst, m) \/ HandleInstallResp(m.dst, m) \/ HandleTimeoutNow(m.dst, m)
                     \/ Drop(m) \/ Duplicate(m)

\* `committed` is a history variable: it accumulates CommittedNow of the state being LEFT
Next == \E cn \in {CommittedNow} :
        /\ Step
        /\ committed' = [i \in (DOMAIN committed) \cup {p[1] : p \in cn} |->
                           IF i \in DOMAIN committed THEN committed[i] ELSE (CHOOSE p \in cn : p[1] = i)[2]]
        /\ cterm' = [i \in (DOMAIN cterm) \cup {p[1] : p \in cn} |->
                       IF i \in DOMAIN cterm THEN cterm[i] ELSE MinSet({p[3] : p \in {q \in cn : q[1] = i}})]

Spec == Init /\ [][Next]_vars

-----------------------------------------------------------------------------
(* properties *)
ElectionSafety   == \A a, b \in leaders : a[2] = b[2] => a[1] = b[1]                                  \* C01
OneVotePerTerm   == \A a, b \in grants : a[1] = b[1] /\ a[2] = b[2] => a[3] = b[3]                    \* C06
CommittedFunctional == \A p, q \in CommittedNow : p[1] = q[1] => p[2] = q[2]                          \* C03
CommittedStable  == \A p \in CommittedNow : p[1] \in DOMAIN committed => committed[p[1]] = p[2]       \* C03
\* a leader holds every entry that was committed under a leader of an EARLIER term (or its own)
LeaderComplete   == \A l \in Server : (ns[l].up /\ ns[l].role = "L") =>
                      \A i \in DOMAIN committed : cterm[i] <= ns[l].term =>
                          (i <= SnapIdx(l) \/ (i \in DOMAIN ns[l].log /\ ns[l].log[i] = committed[i]))                  \* C03
LogMatching      == \A a, b \in Server : \A i \in (DOMAIN ns[a].log) \cap (DOMAIN ns[b].log) :
                      ns[a].log[i][1] = ns[b].log[i][1] =>
                        \A k \in (DOMAIN ns[a].log) \cap (DOMAIN ns[b].log) : (k <= i /\ k > SnapIdx(a) /\ k > SnapIdx(b)) => ns[a].log[k] = ns[b].log[k]   \* C04
TermsMonotoneM   == \A n \in Server : \A i, j \in DOMAIN ns[n].log : i < j => ns[n].log[i][1] <= ns[n].log[j][1]             \* C04
AllCommitted     == committed @@ [p \in {} |-> 0]
CommitJustified  == \A n \in Server : ns[n].up =>
                      \A i \in 1..ns[n].commit : \/ i \in DOMAIN committed \/ \E p \in CommittedNow : p[1] = i               \* C05
CommitBounded    == \A n \in Server : ns[n].up => ns[n].commit <= LastIndex(ns[n])                                           \* C05
FsmOnlyCommitted == \A n \in Server : \A k \in 1..Len(fsm[n]) :
                      LET i == fsm[n][k][1] e == fsm[n][k][2]
                      IN (i \in DOMAIN committed /\ committed[i] = e) \/ (\E p \in CommittedNow : p[1] = i /\ p[2] = e)              \* C02
FsmInOrder       == \A n \in Server : \A k \in 1..(Len(fsm[n]) - 1) : fsm[n][k][1] < fsm[n][k + 1][1]                        \* C02
FsmAgree         == \A a, b \in Server : \A k \in 1..Len(fsm[a]), q \in 1..Len(fsm[b]) :
                      fsm[a][k][1] = fsm[b][q][1] => fsm[a][k][2] = fsm[b][q][2]                                             \* C02
OneUncommittedCfg == \A n \in Server :
                      Cardinality({i \in DOMAIN ns[n].log : ns[n].log[i][2] = "cfg" /\ i > SnapIdx(n)
                                     /\ i \notin DOMAIN committed /\ ~(\E p \in CommittedNow : p[1] = i)}) <= 1              \* C07
LeaderIsVoter    == \A p \in leaders : TRUE
TermDurable      == \A n \in Server : ns[n].up => ns[n].term = ns[n].ct                                                      \* C06
NoHoleM          == \A n \in Server : \A i \in (SnapIdx(n) + 1)..LogLast(ns[n].log) : i \in DOMAIN ns[n].log                 \* C11
ReportedCovered  == \A n \in Server : ns[n].up => LastIndex(ns[n]) <= Max(LogLast(ns[n].log), SnapIdx(n))                    \* C11
XferFlagOnlyCandidate == \A n \in Server : ns[n].xfer => ns[n].role # "L"                                                    \* C14
\* C08 / C20: a leader that has started a transfer stores no client entry or configuration until the transfer ends
NoWriteWhileTransferring == [][\A n \in Server : (ns[n].lxfer /\ ns'[n].lxfer /\ ns[n].role = "L" /\ ns'[n].role = "L" /\ ns[n].up /\ ns'[n].up)
                                  => LastIndex(ns'[n]) = LastIndex(ns[n])]_vars
=============================================================================
