SPECIFICATION Spec
CONSTANTS
  MaxOps = 3
  Pools = {1, 2}
CHECK_DEADLOCK FALSE
