SPECIFICATION Spec
CONSTANTS
  MaxSnaps = 3
  Retains = {1, 2}
CHECK_DEADLOCK FALSE
