SPECIFICATION Spec
CONSTANTS
  Server = {"a", "b", "c"}
  InitCfg = "abc"
  CfgTab <- Tab3
  MaxTerm = 3
  MaxLog = 3
  MaxClient = 1
  MaxCrash = 0
  MaxMsgs = 2
  MaxSnap = 1
  MaxMember = 0
  MaxTimeout = 1
  MaxDrop = 0
  MaxDup = 0
  MaxMisc = 0
  MaxAppend = 1
  Trailing = 0
  Features = {"client", "snapshot"}
VIEW view
INVARIANTS ElectionSafety OneVotePerTerm TermDurable CommittedFunctional CommittedStable LeaderComplete LogMatching TermsMonotoneM CommitBounded CommitJustified FsmOnlyCommitted FsmInOrder FsmAgree OneUncommittedCfg NoHoleM ReportedCovered
CHECK_DEADLOCK FALSE
