SPECIFICATION Spec
CONSTANTS
  Others = {v1, v2, v3, v4}
  Lease = 5
  HB = 3
  MinCheck = 1
  MaxT = 24
  Rearm = FALSE
INVARIANTS StepsDownInTime HealthyStays
CHECK_DEADLOCK FALSE
