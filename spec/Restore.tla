------------------------------- MODULE Restore -------------------------------
(***************************************************************************)
(* User Restore (api.go Restore -> raft.go restoreUserSnapshot) as          *)
(* implemented, in a small cluster model of its own (C20; also the root of  *)
(* defects 12 and 13 of DESIGN section 7).  HRaft.tla abstracts the FSM     *)
(* content away; here the content is explicit so that "the FSM holds        *)
(* exactly the supplied snapshot followed by the later entries" and "calls  *)
(* aborted by the restore leave no trace" can be stated.                    *)
(*                                                                          *)
(* Replication is abstracted to its effect: the leader may try ANY next     *)
(* index (the back-off walks through them), the follower checks the         *)
(* previous entry the way appendEntries does (snapshot boundary first),     *)
(* truncates from the first conflict; when the leader's log no longer holds *)
(* what it would have to send, it sends its newest snapshot, which the      *)
(* follower installs unconditionally, keeping its log when the store        *)
(* tolerates gaps (KeepLog).                                                *)
(*                                                                          *)
(* restoreUserSnapshot, in the order of the code: refuse while a            *)
(* configuration change is uncommitted or a transfer is in progress (not    *)
(* modelled: no membership changes here); abort every in-flight call;       *)
(* burn index = max(last index, supplied index) + 1; write the snapshot     *)
(* (burned index, CURRENT term); restore the FSM; last log / last applied / *)
(* last snapshot := burned index; [repair 4ee0dbe, switch Fix12] delete the *)
(* aborted suffix from the log; Restore() then appends a no-op and waits    *)
(* for it: it returns nil only when that no-op is committed.                *)
(***************************************************************************)
EXTENDS Integers, Sequences, FiniteSets, TLC

CONSTANTS Server, MaxTerm, MaxCmd, MaxRestore, MaxIdx,
          Fix12,     \* TRUE: the aborted suffix is deleted once the restore succeeded (the code as it stands)
          KeepLog    \* TRUE: gap-tolerant store (InstallSnapshot keeps the follower's log); FALSE: log wiped

VARIABLES
  term,      \* [Server -> current term]
  role,      \* [Server -> "F" | "L"]
  log,       \* [Server -> [index -> <<term, kind, id>>]]  kind in {"cmd", "noop"}
  snap,      \* [Server -> [idx, term, content]]  newest snapshot (idx 0: none)
  last,      \* [Server -> cached last log <<index, term>>]
  fsm,       \* [Server -> sequence of ids: the FSM content]
  applied,   \* [Server -> last applied index]
  commit,    \* [Server -> commit index]
  ncmd, nres,            \* counters
  aborted,   \* ghost: [restore number -> set of command ids whose calls were answered ErrAbortedByRestore]
  burnedAt,  \* ghost: [restore number -> <<burned index, term, leader>>]
  okRes      \* ghost: set of restore numbers whose Restore() returned nil (follow-up no-op committed under the same leader)

vars == <<term, role, log, snap, last, fsm, applied, commit, ncmd, nres, aborted, burnedAt, okRes>>

Max(a, b) == IF a >= b THEN a ELSE b
Min(a, b) == IF a <= b THEN a ELSE b
MaxSet(S) == IF S = {} THEN 0 ELSE CHOOSE x \in S : \A y \in S : y <= x
EmptyFn == [x \in {} |-> 0]
NoSnap == [idx |-> 0, term |-> 0, content |-> <<>>]
LastEntry(s) == IF last[s][1] >= snap[s].idx THEN last[s] ELSE <<snap[s].idx, snap[s].term>>
LastIndex(s) == Max(last[s][1], snap[s].idx)
Marker(r) == "R" \o ToString(r)

Init ==
  /\ term = [s \in Server |-> 1] /\ role = [s \in Server |-> "F"]
  /\ log = [s \in Server |-> EmptyFn] /\ snap = [s \in Server |-> NoSnap] /\ last = [s \in Server |-> <<0, 0>>]
  /\ fsm = [s \in Server |-> <<>>] /\ applied = [s \in Server |-> 0] /\ commit = [s \in Server |-> 0]
  /\ ncmd = 0 /\ nres = 0 /\ aborted = EmptyFn /\ burnedAt = EmptyFn /\ okRes = {}

UpToDate(c, v) == ~(LastEntry(v)[2] > LastEntry(c)[2] \/ (LastEntry(v)[2] = LastEntry(c)[2] /\ LastEntry(v)[1] > LastEntry(c)[1]))

AppendAt(s, e, lg) == [i \in (DOMAIN lg) \cup {LastIndex(s) + 1} |-> IF i = LastIndex(s) + 1 THEN e ELSE lg[i]]

\* an election, abstracted to its outcome: a majority Q (with s) whose members find s up to date adopts the new term
Elect(s) ==
  \E Q \in SUBSET Server :
    /\ s \in Q /\ 2 * Cardinality(Q) > Cardinality(Server)
    /\ \A q \in Q : UpToDate(s, q)
    /\ LET t == MaxSet({term[q] : q \in Q}) + 1 IN
       /\ t <= MaxTerm /\ LastIndex(s) < MaxIdx
       /\ term' = [x \in Server |-> IF x \in Q THEN t ELSE term[x]]
       /\ role' = [x \in Server |-> IF x = s THEN "L" ELSE IF x \in Q THEN "F" ELSE role[x]]
       /\ log' = [log EXCEPT ![s] = AppendAt(s, <<t, "noop", "noop">>, @)]
       /\ last' = [last EXCEPT ![s] = <<LastIndex(s) + 1, t>>]
  /\ UNCHANGED <<snap, fsm, applied, commit, ncmd, nres, aborted, burnedAt, okRes>>

ClientApply(l) ==
  /\ role[l] = "L" /\ ncmd < MaxCmd /\ LastIndex(l) < MaxIdx
  /\ log' = [log EXCEPT ![l] = AppendAt(l, <<term[l], "cmd", "c" \o ToString(ncmd + 1)>>, @)]
  /\ last' = [last EXCEPT ![l] = <<LastIndex(l) + 1, term[l]>>]
  /\ ncmd' = ncmd + 1
  /\ UNCHANGED <<term, role, snap, fsm, applied, commit, nres, aborted, burnedAt, okRes>>

\* what the leader sends as previous entry for next index n: from its snapshot boundary, else its log; <<-1,-1>>: not found
PrevOf(l, n) == IF n = 1 THEN <<0, 0>>
                ELSE IF n - 1 = snap[l].idx THEN <<snap[l].idx, snap[l].term>>
                ELSE IF (n - 1) \in DOMAIN log[l] THEN <<n - 1, log[l][n - 1][1]>> ELSE <<-1, -1>>
\* appendEntries' previous-entry check on the follower: snapshot boundary first, then the cached tail, then the store
PrevOK(f, p) == \/ p[1] = 0
                \/ (p[1] = snap[f].idx /\ p[2] = snap[f].term)
                \/ (p[1] # snap[f].idx /\ p[1] = last[f][1] /\ p[2] = last[f][2])
                \/ (p[1] # snap[f].idx /\ p[1] # last[f][1] /\ p[1] \in DOMAIN log[f] /\ log[f][p[1]][1] = p[2])

StepDownIfStale(f, t) == IF term[f] < t THEN "F" ELSE role[f]

\* AppendEntries carrying entry n (one at a time), any next index the back-off may reach
Replicate(l, f) ==
  /\ role[l] = "L" /\ f # l /\ term[f] <= term[l]
  /\ \E n \in DOMAIN log[l] :
       LET p == PrevOf(l, n) e == log[l][n] IN
       /\ p[1] # -1 /\ PrevOK(f, p) /\ n > snap[f].idx
       /\ LET conflict == n <= last[f][1] /\ n \in DOMAIN log[f] /\ log[f][n][1] # e[1]
              have     == n <= last[f][1] /\ n \in DOMAIN log[f] /\ log[f][n][1] = e[1]
              missing  == n <= last[f][1] /\ n \notin DOMAIN log[f]
              lg1 == IF conflict THEN [i \in {k \in DOMAIN log[f] : k < n} |-> log[f][i]] ELSE log[f]
              lg2 == IF have THEN lg1 ELSE [i \in (DOMAIN lg1) \cup {n} |-> IF i = n THEN e ELSE lg1[i]]
          IN /\ ~missing
             /\ log' = [log EXCEPT ![f] = lg2]
             /\ last' = [last EXCEPT ![f] = IF have THEN @ ELSE <<n, e[1]>>]
             /\ commit' = [commit EXCEPT ![f] = Max(@, Min(commit[l], n))]
  /\ term' = [term EXCEPT ![f] = term[l]]
  /\ role' = [role EXCEPT ![f] = IF term[f] < term[l] \/ role[f] = "L" THEN "F" ELSE @]
  /\ UNCHANGED <<snap, fsm, applied, ncmd, nres, aborted, burnedAt, okRes>>

\* the leader's log does not hold what next index n needs: sendLatestSnapshot; installSnapshot takes it unconditionally
InstallSnapshot(l, f) ==
  /\ role[l] = "L" /\ f # l /\ term[f] <= term[l] /\ snap[l].idx > 0
  /\ \E n \in 1..(LastIndex(l) + 1) : PrevOf(l, n)[1] = -1 \/ (n <= last[l][1] /\ n \notin DOMAIN log[l])
  /\ snap[f] # snap[l]
  /\ snap' = [snap EXCEPT ![f] = snap[l]]
  /\ fsm' = [fsm EXCEPT ![f] = snap[l].content]
  /\ applied' = [applied EXCEPT ![f] = snap[l].idx]
  /\ log' = [log EXCEPT ![f] = IF KeepLog THEN [i \in {k \in DOMAIN @ : k > snap[l].idx} |-> @[i]] ELSE EmptyFn]
  /\ last' = [last EXCEPT ![f] = IF KeepLog /\ @[1] > snap[l].idx THEN @ ELSE <<snap[l].idx, snap[l].term>>]
  /\ term' = [term EXCEPT ![f] = term[l]]
  /\ role' = [role EXCEPT ![f] = "F"]
  /\ UNCHANGED <<commit, ncmd, nres, aborted, burnedAt, okRes>>

Holds(v, l, j) == \A i \in 1..j : i <= snap[v].idx \/ (i \in DOMAIN log[v] /\ i \in DOMAIN log[l] /\ log[v][i] = log[l][i])
                                   \/ (i \in DOMAIN log[v] /\ i <= snap[l].idx)
AdvanceCommit(l) ==
  /\ role[l] = "L"
  /\ \E j \in DOMAIN log[l] :
       /\ j > commit[l] /\ log[l][j][1] = term[l]
       /\ 2 * Cardinality({v \in Server : term[v] = term[l] /\ Holds(v, l, j)}) > Cardinality(Server)
       /\ commit' = [commit EXCEPT ![l] = j]
       \* Restore() returns nil when its follow-up no-op is committed by the leader that took the restore
       /\ okRes' = okRes \cup {r \in DOMAIN burnedAt : burnedAt[r][3] = l /\ burnedAt[r][2] = term[l] /\ burnedAt[r][1] + 1 <= j}
  /\ UNCHANGED <<term, role, log, snap, last, fsm, applied, ncmd, nres, aborted, burnedAt>>

\* processLogs: the next committed entry goes to the FSM (read from the LOG STORE)
ApplyNext(s) ==
  /\ applied[s] < commit[s]
  /\ LET i == applied[s] + 1 IN
     /\ i \in DOMAIN log[s]
     /\ applied' = [applied EXCEPT ![s] = i]
     /\ fsm' = [fsm EXCEPT ![s] = IF log[s][i][2] = "cmd" THEN Append(@, log[s][i][3]) ELSE @]
  /\ UNCHANGED <<term, role, log, snap, last, commit, ncmd, nres, aborted, burnedAt, okRes>>

UserRestore(l) ==
  /\ role[l] = "L" /\ nres < MaxRestore /\ LastIndex(l) + 2 <= MaxIdx
  /\ LET r == nres + 1
         i == LastIndex(l) + 1                       \* (supplied index not above the last index)
         \* the in-flight futures of this leader: its own term's commands that it has not committed yet
         inflight == {log[l][k][3] : k \in {x \in DOMAIN log[l] : x > commit[l] /\ log[l][x][2] = "cmd" /\ log[l][x][1] = term[l]}}
         kept == IF Fix12 THEN [k \in {x \in DOMAIN log[l] : x <= commit[l]} |-> log[l][k]] ELSE log[l]
         content == <<Marker(r)>>
     IN /\ aborted' = aborted @@ (r :> inflight)
        /\ burnedAt' = burnedAt @@ (r :> <<i, term[l], l>>)
        /\ snap' = [snap EXCEPT ![l] = [idx |-> i, term |-> term[l], content |-> content]]
        /\ fsm' = [fsm EXCEPT ![l] = content]
        /\ applied' = [applied EXCEPT ![l] = i]
        \* the follow-up no-op of Restore()
        /\ log' = [log EXCEPT ![l] = [k \in (DOMAIN kept) \cup {i + 1} |-> IF k = i + 1 THEN <<term[l], "noop", "noop">> ELSE kept[k]]]
        /\ last' = [last EXCEPT ![l] = <<i + 1, term[l]>>]
        /\ nres' = r
  /\ UNCHANGED <<term, role, commit, ncmd, okRes>>

Next == \/ \E s \in Server : Elect(s) \/ ClientApply(s) \/ AdvanceCommit(s) \/ ApplyNext(s) \/ UserRestore(s)
        \/ \E l, f \in Server : Replicate(l, f) \/ InstallSnapshot(l, f)
Spec == Init /\ [][Next]_vars

-----------------------------------------------------------------------------
Ids(S) == UNION {aborted[r] : r \in S}
\* C20: calls aborted by a Restore that returned nil leave no trace: from then on no FSM is handed their commands
AbortedLeaveNoTrace ==
  [][\A s \in Server : Len(fsm'[s]) = Len(fsm[s]) + 1 => fsm'[s][Len(fsm'[s])] \notin Ids(okRes)]_vars
\* C20: every later entry gets an index above the burned index and above every index used before
BurnedIndexFresh == \A r \in DOMAIN burnedAt : \A s \in Server : \A k \in DOMAIN log[s] :
                      (log[s][k][1] = burnedAt[r][2] /\ k = burnedAt[r][1]) => FALSE
\* C20 / C02: a server whose FSM went through restore r holds exactly the supplied state followed by later commands,
\* and two servers that went through the same (successful) restore agree on what follows it
AfterMarker(q, r) == LET P == {k \in 1..Len(q) : q[k] = Marker(r)} IN
                     IF P = {} THEN <<"none">> ELSE SubSeq(q, MaxSet(P), Len(q))
RestoredStateAgreed ==
  \A r \in okRes : \A a, b \in Server :
     LET x == AfterMarker(fsm[a], r) y == AfterMarker(fsm[b], r) IN
     (x # <<"none">> /\ y # <<"none">>) =>
        (\A k \in 1..Min(Len(x), Len(y)) : x[k] = y[k]) /\ x[1] = Marker(r) /\ (Len(x) > 0 => \A k \in 2..Len(x) : x[k] \notin Ids({r}))
\* no FSM ever holds anything in front of a restore marker (the supplied state REPLACES what was there)
MarkerFirst == \A s \in Server : \A k \in 1..Len(fsm[s]) : (\E r \in 1..nres : fsm[s][k] = Marker(r)) => k = 1
=============================================================================
