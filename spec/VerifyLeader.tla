---------------------------- MODULE VerifyLeader ----------------------------
(***************************************************************************)
(* C09 at design level: what may count towards a VerifyLeader call         *)
(* (raft.go verifyLeader, replication.go heartbeat / replicateTo /         *)
(* notifyAll / notifyWaiting, future.go verifyFuture.vote).                 *)
(*                                                                          *)
(* L leads term 1 with the followers F. Requests (heartbeats or            *)
(* AppendEntries) travel to a follower and their responses travel back,    *)
(* with arbitrary delay. Followers may move on to term 2 at any time; once *)
(* a majority of the cluster has, a leader of term 2 exists. A follower in *)
(* term 2 answers L's requests negatively.                                  *)
(*                                                                          *)
(* VerifyLeader registers the call with every replication routine and      *)
(* forces a heartbeat. Fresh = FALSE is the code before repair 77883c0:    *)
(* ANY positive response that comes in next is the follower's vote -- also *)
(* the response to a request that was in flight when the call was made,    *)
(* produced before the call. Fresh = TRUE is the repair: a request vouches *)
(* only for the calls that were waiting when it was SENT.                   *)
(*                                                                          *)
(* The simulator families verify / verifywide observe the same events on   *)
(* the real code (VerifiedOnAckProducedBeforeCall,                          *)
(* VerifiedWithoutMajorityOfVoters in HRaftTrace.tla).                      *)
(***************************************************************************)
EXTENDS Integers, FiniteSets, TLC

CONSTANTS F,        \* the followers (all voters); the cluster is F plus the leader L
          Fresh     \* BOOLEAN: only requests sent after the call vouch for it

VARIABLES ft,        \* [F -> 1..2] the follower's term
          superseded, \* a leader of term 2 exists
          msgs,      \* requests / responses in flight: [f, phase, ok, after]
          call,      \* "idle" | "pending" | "ok" | "failed"
          votes,     \* followers whose positive answer was counted for the call
          late       \* the call was made when L had already been superseded
vars == <<ft, superseded, msgs, call, votes, late>>

N == Cardinality(F) + 1
Quorum == (N \div 2) + 1

Init == /\ ft = [f \in F |-> 1] /\ superseded = FALSE /\ msgs = {} /\ call = "idle" /\ votes = {} /\ late = FALSE

\* a replication routine sends its next request (one in flight per follower and kind is enough here)
Send(f) == /\ ~\E m \in msgs : m.f = f
           /\ msgs' = msgs \cup {[f |-> f, phase |-> "req", ok |-> FALSE, after |-> (call = "pending")]}
           /\ UNCHANGED <<ft, superseded, call, votes, late>>

\* the follower handles it: positive while it is still in L's term
Handle(m) == /\ m \in msgs /\ m.phase = "req"
             /\ msgs' = (msgs \ {m}) \cup {[m EXCEPT !.phase = "resp", !.ok = (ft[m.f] = 1)]}
             /\ UNCHANGED <<ft, superseded, call, votes, late>>

\* the response reaches L's replication routine
Receive(m) ==
  /\ m \in msgs /\ m.phase = "resp"
  /\ msgs' = msgs \ {m}
  /\ IF call # "pending" THEN UNCHANGED <<call, votes>>
     ELSE IF ~m.ok THEN call' = "failed" /\ UNCHANGED votes           \* a negative answer fails every waiting call
     ELSE IF Fresh /\ ~m.after THEN UNCHANGED <<call, votes>>        \* sent before the call: vouches for nothing
     ELSE /\ votes' = votes \cup {m.f}
          /\ call' = IF Cardinality(votes') + 1 >= Quorum THEN "ok" ELSE call
  /\ UNCHANGED <<ft, superseded, late>>

Lose(m) == m \in msgs /\ msgs' = msgs \ {m} /\ UNCHANGED <<ft, superseded, call, votes, late>>

\* VerifyLeader is called
Call == /\ call = "idle" /\ call' = "pending" /\ late' = superseded
        /\ UNCHANGED <<ft, superseded, msgs, votes>>

\* a follower moves on to term 2 (it voted for, or heard from, somebody else)
Advance(f) == /\ ft[f] = 1 /\ ft' = [ft EXCEPT ![f] = 2]
              /\ UNCHANGED <<superseded, msgs, call, votes, late>>

\* a majority of the cluster is in term 2: its leader exists
Elect == /\ ~superseded /\ Cardinality({f \in F : ft[f] = 2}) >= Quorum
         /\ superseded' = TRUE
         /\ UNCHANGED <<ft, msgs, call, votes, late>>

Next == \/ \E f \in F : Send(f) \/ Advance(f)
        \/ \E m \in msgs : Handle(m) \/ Receive(m) \/ Lose(m)
        \/ Call \/ Elect
Spec == Init /\ [][Next]_vars

TypeOK == call \in {"idle", "pending", "ok", "failed"} /\ votes \subseteq F
\* C09: VerifyLeader never succeeds on a server that had already been superseded when the call began
NoStaleSuccess == call = "ok" => ~late
\* C09: success needs positive answers of a majority (the caller included)
MajorityVouched == call = "ok" => Cardinality(votes) + 1 >= Quorum
=============================================================================
