SPECIFICATION Spec
CONSTANTS
  Suite = "restart"
  MaxLen = 2
  MaxT = 3
CHECK_DEADLOCK FALSE
