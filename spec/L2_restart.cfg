SPECIFICATION Spec
CONSTANTS
  Suite = "restart"
  MaxLen = 3
  MaxT = 3
CHECK_DEADLOCK FALSE
