SPECIFICATION Spec
CONSTANTS
  Suite = "ae"
  MaxLen = 3
  MaxT = 3
CHECK_DEADLOCK FALSE
