------------------------------ MODULE FastPath ------------------------------
(***************************************************************************)
(* The heartbeat fast path of hashicorp/raft at design level (C01, C06,    *)
(* C18): NetworkTransport hands a heartbeat (an AppendEntries without      *)
(* entries) to Raft.processHeartbeat on the TRANSPORT's goroutine          *)
(* (SetHeartbeatHandler), i.e. concurrently with the server's main         *)
(* goroutine, which sits somewhere in runFollower / runCandidate /         *)
(* electSelf / runLeader. Both read and write state, term and leader.      *)
(*                                                                          *)
(* One server S is modelled with the program counter of its main goroutine *)
(* (one action per critical section of raft.go) and the environment: other *)
(* servers win terms, send heartbeats for terms they won, and grant S a    *)
(* quorum for a term nobody else won. Messages are delayed arbitrarily.    *)
(*                                                                          *)
(*   pc          code                                                       *)
(*   "run"       run(): switch r.getState()                                 *)
(*   "follower"  runFollower loop                                           *)
(*   "cand"      runCandidate before electSelf                              *)
(*   "write"     electSelf: newTerm computed, setCurrentTerm(newTerm) is in *)
(*               the stable store (the in-memory term is set afterwards)    *)
(*   "wait"      runCandidate waiting for votes of elTerm                   *)
(*   "notify"    runLeader blocked in `notify <- true`                      *)
(*   "setup"     runLeader: setupLeaderState, startStopReplication, no-op   *)
(*   "lead"      leaderLoop                                                 *)
(*                                                                          *)
(* Fix17/Fix18/Fix19 switch the repairs 4858b58 (runCandidate re-checks    *)
(* state and term when a vote arrives), 13cb4f9 (runLeader re-checks the   *)
(* state after the NotifyCh hand-over) and ea62232 (electSelf clears the   *)
(* advertised leader) on and off; Fix20 is a term lock that the code does  *)
(* NOT have (open finding 20: the term goes backwards when a heartbeat of  *)
(* a newer term is handled while the main goroutine is inside              *)
(* setCurrentTerm). With a repair off TLC reproduces the defect as a       *)
(* counterexample (DESIGN.md section 7, defects 17-20); FastPath_asis.cfg  *)
(* is the code as it stands; with all four on every invariant holds.       *)
(*                                                                          *)
(* Binding to the code: the simulator families fastpathrace (17),          *)
(* notifyshort in its fast-path variant (18), fastpathterm (19) and        *)
(* fastpathup (20) stage exactly these interleavings on real raft.Raft     *)
(* nodes (the store write is a harness gate, the heartbeat is delivered    *)
(* while it is parked), and HRaftTrace.tla judges the same invariants      *)
(* there: TwoLeadersInTerm / LeaderStateInTermNotWon /                     *)
(* ActsAsLeaderWithoutWinning, LeaderNeverLedThisTerm, TermDecreased...    *)
(*                                                                          *)
(* Atomic = TRUE treats a re-check and the statements that rely on it as   *)
(* one step. With Atomic = FALSE TLC shows what the repairs leave open:    *)
(* windows a few instructions wide between the check and the use, which    *)
(* only a lock shared by the fast path and the main goroutine would close. *)
(***************************************************************************)
EXTENDS Integers, Sequences, FiniteSets, TLC

CONSTANTS MaxTerm, Fix17, Fix18, Fix19, Fix20, Atomic

VARIABLES term,     \* in-memory current term of S
          disk,     \* persisted current term
          role,     \* "F" | "C" | "L"
          leader,   \* advertised leader: "" | "S" | "X" (anybody else)
          pc,       \* main goroutine
          pend,     \* electSelf: the term being written
          elTerm,   \* the term S campaigns in (runCandidate's local `term`)
          won,      \* terms in which the environment granted S a quorum
          envLed,   \* terms won by somebody else
          votes,    \* election terms for which a granted quorum is in flight to S
          acts,     \* terms in which S acted as leader (appended / sent AppendEntries)
          notif,    \* values delivered on NotifyCh
          hiTerm    \* highest term S ever reported (history)
vars == <<term, disk, role, leader, pc, pend, elTerm, won, envLed, votes, acts, notif, hiTerm>>

Terms == 1..MaxTerm

Init == /\ term = 1 /\ disk = 1 /\ role = "F" /\ leader = "" /\ pc = "follower" /\ pend = 0 /\ elTerm = 0
        /\ won = {} /\ envLed = {} /\ votes = {} /\ acts = {} /\ notif = <<>> /\ hiTerm = 1

Report(t) == hiTerm' = IF t > hiTerm THEN t ELSE hiTerm

----------------------------------------------------------------------------
(* the environment *)

\* somebody else wins term t (a quorum that did not vote for S in t)
EnvWins(t) == /\ t \notin won /\ t \notin envLed /\ envLed' = envLed \cup {t}
              /\ UNCHANGED <<term, disk, role, leader, pc, pend, elTerm, won, votes, acts, notif, hiTerm>>

\* a quorum grants S its votes for the term S campaigns in; the answer travels
Grant == /\ pc = "wait" /\ elTerm \notin envLed /\ elTerm \notin won
         /\ won' = won \cup {elTerm} /\ votes' = votes \cup {elTerm}
         /\ UNCHANGED <<term, disk, role, leader, pc, pend, elTerm, envLed, acts, notif, hiTerm>>

\* processHeartbeat -> appendEntries on the transport goroutine, for a heartbeat of a leader of term t.
\* (a heartbeat of an older term is refused; otherwise: become follower, adopt the term, record the leader)
\* Fix20 is the design of a repair, not the code: a lock held by the handler for its whole duration whenever it has to
\* call setCurrentTerm (newer term, or the server is not a follower), and by the main goroutine inside setCurrentTerm;
\* such a heartbeat waits while the main goroutine is writing a term.
Heartbeat(t) ==
  /\ t \in envLed /\ t >= term
  /\ ~(Fix20 /\ pc = "write" /\ (t > term \/ role # "F"))
  /\ role' = "F" /\ leader' = "X"
  /\ term' = t /\ disk' = IF t > term THEN t ELSE disk
  /\ Report(t)
  /\ UNCHANGED <<pc, pend, elTerm, won, envLed, votes, acts, notif>>

----------------------------------------------------------------------------
(* the main goroutine *)

Run == /\ pc = "run"
       /\ pc' = CASE role = "F" -> "follower" [] role = "C" -> "cand" [] OTHER -> "notify"
       /\ UNCHANGED <<term, disk, role, leader, pend, elTerm, won, envLed, votes, acts, notif, hiTerm>>

\* runFollower: heartbeat timeout
Timeout == /\ pc = "follower" /\ role = "F" /\ term < MaxTerm
           /\ leader' = "" /\ role' = "C" /\ pc' = "run"
           /\ UNCHANGED <<term, disk, pend, elTerm, won, envLed, votes, acts, notif, hiTerm>>

\* electSelf: newTerm := getCurrentTerm() + 1; the write to the stable store begins
ElectBegin == /\ pc = "cand" /\ term < MaxTerm
              /\ pend' = term + 1 /\ pc' = "write"
              /\ UNCHANGED <<term, disk, role, leader, elTerm, won, envLed, votes, acts, notif, hiTerm>>

\* ... the write completes, the in-memory term follows; runCandidate remembers the term it campaigns in
ElectWritten ==
  /\ pc = "write"
  /\ LET keep == Fix20 /\ pend < term      \* the term lock: never backwards
     IN /\ disk' = IF keep THEN disk ELSE pend
        /\ term' = IF keep THEN term ELSE pend
        /\ Report(IF keep THEN term ELSE pend)
  /\ leader' = IF Fix19 THEN "" ELSE leader
  /\ elTerm' = pend /\ pc' = "wait"
  /\ UNCHANGED <<role, pend, won, envLed, votes, acts, notif>>

\* runCandidate: a granted quorum arrives (possibly late)
StillCandidate == role = "C" /\ term = elTerm
VoteArrives(e) ==
  /\ pc = "wait" /\ e \in votes /\ e = elTerm
  /\ votes' = votes \ {e}
  /\ IF Fix17 /\ ~StillCandidate
     THEN pc' = "run" /\ UNCHANGED <<role, leader>>
     ELSE role' = "L" /\ leader' = "S" /\ pc' = "run"
  /\ UNCHANGED <<term, disk, pend, elTerm, won, envLed, acts, notif, hiTerm>>

\* runCandidate: the loop condition `for r.getState() == Candidate` is re-evaluated, or the election times out
CandGivesUp == /\ pc = "wait" /\ (role # "C" \/ elTerm \notin votes)
               /\ pc' = "run"
               /\ UNCHANGED <<term, disk, role, leader, pend, elTerm, won, envLed, votes, acts, notif, hiTerm>>

\* runLeader: the consumer takes `true` from NotifyCh
Act(t) == acts' = acts \cup {t}
NotifyRead ==
  /\ pc = "notify"
  /\ IF Fix18 /\ role # "L"
     THEN notif' = notif \o <<TRUE, FALSE>> /\ pc' = "run" /\ UNCHANGED acts
     ELSE IF Atomic
     THEN notif' = Append(notif, TRUE) /\ pc' = "lead" /\ Act(term)     \* setup + no-op stamped with getCurrentTerm()
     ELSE notif' = Append(notif, TRUE) /\ pc' = "setup" /\ UNCHANGED acts
  /\ UNCHANGED <<term, disk, role, leader, pend, elTerm, won, envLed, votes, hiTerm>>

Setup == /\ pc = "setup" /\ Act(term) /\ pc' = "lead"
         /\ UNCHANGED <<term, disk, role, leader, pend, elTerm, won, envLed, votes, notif, hiTerm>>

\* leaderLoop: `for r.getState() == Leader`; one iteration replicates in the current term
LeadStep == /\ pc = "lead" /\ role = "L" /\ Act(term)
            /\ UNCHANGED <<term, disk, role, leader, pc, pend, elTerm, won, envLed, votes, notif, hiTerm>>
LeadExit == /\ pc = "lead" /\ role # "L" /\ notif' = Append(notif, FALSE) /\ pc' = "run"
            /\ UNCHANGED <<term, disk, role, leader, pend, elTerm, won, envLed, votes, acts, hiTerm>>

Next == \/ \E t \in Terms : EnvWins(t) \/ Heartbeat(t) \/ VoteArrives(t)
        \/ Grant \/ Run \/ Timeout \/ ElectBegin \/ ElectWritten \/ CandGivesUp
        \/ NotifyRead \/ Setup \/ LeadStep \/ LeadExit
Spec == Init /\ [][Next]_vars

----------------------------------------------------------------------------
TypeOK == /\ term \in Terms /\ disk \in Terms /\ role \in {"F", "C", "L"} /\ leader \in {"", "S", "X"}
          /\ pc \in {"run", "follower", "cand", "write", "wait", "notify", "setup", "lead"}

\* C01: S acts as leader only in terms it won (and nobody else won them: by construction of Grant / EnvWins)
ActsOnlyInWonTerms == acts \subseteq won
\* C01: leader state only in a term that was won
LeaderStateInWonTerm == role = "L" => term \in won
\* C06: the reported term never decreases, nor does the persisted one fall behind what was reported
\* (outside the store write that is in progress)
TermNeverDecreases == term = hiTerm
DurableTermKeepsUp == pc # "write" => disk >= hiTerm
\* C18: a follower names only a server that led its current term
AdvertisedLeaderLedTerm == (role = "F" /\ leader = "X") => term \in envLed
AdvertisedSelfLedTerm   == leader = "S" => term \in won
\* C18: notifications alternate, starting with true
Alternates == \A i \in 1..Len(notif) : notif[i] = (i % 2 = 1)
\* C18: at rest in the follower loop the last notification is not `true`
RestValue == pc = "follower" => (Len(notif) = 0 \/ ~notif[Len(notif)])
=============================================================================
