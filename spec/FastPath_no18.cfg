\* without repair 13cb4f9: defect 18 (a demoted leader carries on after the NotifyCh hand-over)
SPECIFICATION Spec
CONSTANTS
  MaxTerm = 4
  Fix17 = TRUE
  Fix18 = FALSE
  Fix19 = TRUE
  Fix20 = FALSE
  Atomic = TRUE
INVARIANTS TypeOK ActsOnlyInWonTerms
CHECK_DEADLOCK FALSE
