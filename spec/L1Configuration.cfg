SPECIFICATION Spec
CONSTANTS
  Ids = {"a", "b", "c"}
  Addrs = {"x", ""}
INVARIANTS OneVoterAtATime KeepsAVoter UniqueIdsAddrs StaleRejected
CHECK_DEADLOCK FALSE
