SPECIFICATION Spec
CONSTANTS
  Suite = "vote2"
  MaxLen = 3
  MaxT = 3
CHECK_DEADLOCK FALSE
