SPECIFICATION Spec
CONSTANTS
  Server = {"a", "b", "c"}
  InitCfg = "abc"
  CfgTab <- Tab3
  MaxTerm = 3
  MaxLog = 3
  MaxClient = 0
  MaxCrash = 1
  MaxMsgs = 4
  MaxSnap = 0
  MaxMember = 0
  MaxTimeout = 3
  MaxDrop = 1
  MaxMisc = 1
  MaxAppend = 2
  Trailing = 1
  Features = {"prevote", "crash", "drop"}
VIEW view
INVARIANTS ElectionSafety OneVotePerTerm TermDurable CommittedFunctional CommittedStable LeaderComplete LogMatching TermsMonotoneM CommitBounded
CHECK_DEADLOCK FALSE
