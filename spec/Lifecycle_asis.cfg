SPECIFICATION Spec
CONSTANTS
  Fut = {f1, f2}
  Cap = 1
  HasShutdownCh = FALSE
  Repaired = FALSE
INVARIANTS TypeOK NoStrandedCaller
PROPERTIES NoEnqueueAfterShutdown EveryCallAnswered
CHECK_DEADLOCK FALSE
