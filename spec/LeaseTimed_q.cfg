SPECIFICATION Spec
CONSTANTS
  Others = {v1, v2}
  Lease = 5
  HB = 3
  MinCheck = 1
  MaxT = 20
  Rearm = TRUE
INVARIANTS StepsDownInTime HealthyStays
CHECK_DEADLOCK FALSE
