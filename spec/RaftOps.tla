------------------------------- MODULE RaftOps -------------------------------
(***************************************************************************)
(* Pure operators transcribed from hashicorp/raft (pinned commit).  They    *)
(* are the single source of truth for BOTH the bounded model (HRaft.tla,    *)
(* checked exhaustively by TLC) and the trace specification                 *)
(* (HRaftTrace.tla, which evaluates them on steps of the real code).        *)
(*                                                                          *)
(* Conventions.  A log entry is a tuple <<term, type, id>> with type in     *)
(* {"cmd","noop","bar","cfg"}; for "cfg" entries id is the NAME of a        *)
(* configuration, and `tab` maps names to functions [server -> "V"|"N"|"S"]. *)
(* A log is a function from a finite set of indexes to entries (gaps are    *)
(* possible).  A node state `s` is a record with the fields listed in       *)
(* NodeFields.                                                              *)
(***************************************************************************)
EXTENDS Integers, Sequences, FiniteSets, TLC

Max(a, b) == IF a >= b THEN a ELSE b
Min(a, b) == IF a <= b THEN a ELSE b
MaxSet(S) == IF S = {} THEN 0 ELSE CHOOSE x \in S : \A y \in S : y <= x
MinSet(S) == IF S = {} THEN 0 ELSE CHOOSE x \in S : \A y \in S : x <= y
Range(f) == {f[x] : x \in DOMAIN f}

ETerm(e) == e[1]
EType(e) == e[2]
EId(e)   == e[3]

NoCfg == "-"      \* name of the empty configuration

-----------------------------------------------------------------------------
(* configuration.go *)
CfgMembers(tab, c) == IF c = NoCfg THEN {} ELSE DOMAIN tab[c]
Voters(tab, c)     == IF c = NoCfg THEN {} ELSE {x \in DOMAIN tab[c] : tab[c][x] = "V"}
IsMember(tab, c, x) == x \in CfgMembers(tab, c)
IsVoter(tab, c, x)  == x \in Voters(tab, c)                 \* hasVote
QuorumSize(tab, c)  == (Cardinality(Voters(tab, c)) \div 2) + 1     \* raft.go quorumSize

-----------------------------------------------------------------------------
(* state.go: what the node BELIEVES its tail is -- caches, not the store *)
LastEntry(s) == IF s.llog[1] >= s.lsnap[1] THEN s.llog ELSE s.lsnap      \* getLastEntry
LastIndex(s) == Max(s.llog[1], s.lsnap[1])                               \* getLastIndex

LogFirst(lg) == MinSet(DOMAIN lg)
LogLast(lg)  == MaxSet(DOMAIN lg)
Restrict(f, S) == [x \in S |-> f[x]]
DelRange(lg, lo, hi) == Restrict(lg, {i \in DOMAIN lg : i < lo \/ i > hi})

-----------------------------------------------------------------------------
(* commitment.go *)
CountGE(match, x) == Cardinality({v \in DOMAIN match : match[v] >= x})
QuorumMatch(match) ==          \* sorted[(len-1) \div 2]
  IF DOMAIN match = {} THEN 0
  ELSE CHOOSE x \in Range(match) :
         /\ 2 * CountGE(match, x) > Cardinality(DOMAIN match)
         /\ \A y \in Range(match) : y > x => ~(2 * CountGE(match, y) > Cardinality(DOMAIN match))
\* c = [match, commit, start]
CRecalc(c) ==
  LET q == QuorumMatch(c.match)
  IN IF DOMAIN c.match # {} /\ q > c.commit /\ q >= c.start THEN [c EXCEPT !.commit = q] ELSE c
CMatch(c, x, i) == IF x \in DOMAIN c.match /\ i > c.match[x] THEN CRecalc([c EXCEPT !.match[x] = i]) ELSE c
CSetCfg(c, voters) ==
  CRecalc([c EXCEPT !.match = [v \in voters |-> IF v \in DOMAIN c.match THEN c.match[v] ELSE 0]])
CNew(voters, start) == [match |-> [v \in voters |-> 0], commit |-> 0, start |-> start]

-----------------------------------------------------------------------------
(* snapshot.go compactLogsWithTrailing: the range deleted (<<lo,hi>>) or <<0,0>> for none *)
CompactRange(first, snapIdx, lastLogIdx, trailing) ==
  IF lastLogIdx <= trailing THEN <<0, 0>>
  ELSE LET maxLog == Min(snapIdx, lastLogIdx - trailing)
       IN IF first > maxLog THEN <<0, 0>> ELSE <<first, maxLog>>

-----------------------------------------------------------------------------
(* raft.go requestVote -- in the order of the code *)
UpToDate(m, le) == ~(le[2] > m.llt \/ (le[2] = m.llt /\ le[1] > m.lli))

\* m = [term, cand, lli, llt, xfer];  failSecond: the second vote write fails (store error)
RVHandle(s, m, tab) ==
  LET c      == s.cl
      deny   == [st |-> s, resp |-> [term |-> s.term, granted |-> FALSE]]
      bump   == m.term > s.term
      s1     == IF bump THEN [s EXCEPT !.role = "F", !.term = m.term, !.ct = m.term, !.leader = ""] ELSE s
      out(granted, st) == [st |-> st, resp |-> [term |-> s1.term, granted |-> granted]]
  IN  IF c # NoCfg /\ ~IsMember(tab, c, m.cand)                      THEN deny   \* raft.go:1663-1672
      ELSE IF s.leader # "" /\ s.leader # m.cand /\ ~m.xfer          THEN deny   \* 1673-1679 (before the term is looked at)
      ELSE IF m.term < s.term                                        THEN deny   \* 1682
      ELSE IF c # NoCfg /\ ~IsVoter(tab, c, m.cand)                  THEN out(FALSE, s1)   \* 1701-1707 term bumped, refused
      ELSE IF s.vt = m.term /\ s.vc # ""                             THEN out(s.vc = m.cand, s1)  \* 1721-1728 NO log check here
      ELSE IF ~UpToDate(m, LastEntry(s1))                            THEN out(FALSE, s1)   \* 1731-1746
      ELSE out(TRUE, [s1 EXCEPT !.vt = m.term, !.vc = m.cand])                             \* persistVote: two writes

(* raft.go requestPreVote: never changes state *)
PVHandle(s, m, tab) ==
  LET c    == s.cl
      deny == [term |-> s.term, granted |-> FALSE]
      t1   == IF m.term > s.term THEN m.term ELSE s.term
  IN  IF c # NoCfg /\ ~IsMember(tab, c, m.cand)          THEN deny
      ELSE IF s.leader # "" /\ s.leader # m.cand         THEN deny
      ELSE IF m.term < s.term                            THEN deny
      ELSE IF c # NoCfg /\ ~IsVoter(tab, c, m.cand)      THEN [term |-> t1, granted |-> FALSE]
      ELSE IF ~UpToDate(m, LastEntry(s))                 THEN [term |-> t1, granted |-> FALSE]
      ELSE [term |-> t1, granted |-> TRUE]

-----------------------------------------------------------------------------
(* raft.go appendEntries.  m = [term, leader, prev, prevterm, commit, entries]  *)
(* entries: sequence of <<index, term, type, id>>                              *)
AEIdx(e) == e[1]
AEEnt(e) == <<e[2], e[3], e[4]>>

\* position of the first entry that is new, missing or conflicting; 0 if none
AEFirstOdd(s, m) ==
  LET P == {k \in 1..Len(m.entries) :
              \/ AEIdx(m.entries[k]) > s.llog[1]
              \/ AEIdx(m.entries[k]) \notin DOMAIN s.log
              \/ s.log[AEIdx(m.entries[k])][1] # m.entries[k][2]}
  IN IF P = {} THEN 0 ELSE MinSet(P)

\* apply configuration entries of a sequence of AE entries (processConfigurationLogEntry)
RECURSIVE ApplyCfgEntries(_, _, _)
ApplyCfgEntries(s, es, k) ==
  IF k > Len(es) THEN s
  ELSE IF es[k][3] = "cfg"
       THEN ApplyCfgEntries([s EXCEPT !.cc = s.cl, !.cci = s.cli, !.cl = es[k][4], !.cli = es[k][1]], es, k + 1)
       ELSE ApplyCfgEntries(s, es, k + 1)

AEHandle(s, m) ==
  LET resp0 == [term |-> s.term, last |-> LastIndex(s), ok |-> FALSE, nobackoff |-> FALSE]
  IN
  IF m.term < s.term THEN [st |-> s, resp |-> resp0]
  ELSE
  LET bump == m.term > s.term \/ (s.role # "F" /\ ~s.xfer)
      s1   == IF bump THEN [s EXCEPT !.role = "F", !.term = m.term, !.ct = m.term] ELSE s
      s2   == [s1 EXCEPT !.leader = m.leader]
      resp1 == [resp0 EXCEPT !.term = IF bump THEN m.term ELSE s.term]
      le   == LastEntry(s2)
      \* the snapshot boundary is consulted first (it may no longer be in the store although the
      \* log continues past it), then the cached tail, then the store
      prevKnown == m.prev = 0 \/ m.prev = s2.lsnap[1] \/ m.prev = le[1] \/ m.prev \in DOMAIN s2.log
      prevTerm  == IF m.prev = s2.lsnap[1] THEN s2.lsnap[2]
                   ELSE IF m.prev = le[1] THEN le[2] ELSE IF m.prev \in DOMAIN s2.log THEN s2.log[m.prev][1] ELSE 0
  IN
  IF m.prev > 0 /\ (~prevKnown \/ prevTerm # m.prevterm)
  THEN [st |-> s2, resp |-> [resp1 EXCEPT !.nobackoff = TRUE]]
  ELSE
  LET k        == AEFirstOdd(s2, m)
      lastLog  == s2.llog[1]
      kIdx     == IF k = 0 THEN 0 ELSE AEIdx(m.entries[k])
      missing  == k # 0 /\ kIdx <= lastLog /\ kIdx \notin DOMAIN s2.log
      conflict == k # 0 /\ kIdx <= lastLog /\ ~missing
      new      == IF k = 0 THEN <<>> ELSE SubSeq(m.entries, k, Len(m.entries))
      logD     == IF conflict THEN DelRange(s2.log, kIdx, lastLog) ELSE s2.log
      s3       == IF conflict /\ kIdx <= s2.cli THEN [s2 EXCEPT !.cl = s2.cc, !.cli = s2.cci] ELSE s2
      logN     == [i \in DOMAIN logD \cup {AEIdx(new[j]) : j \in 1..Len(new)} |->
                     IF \E j \in 1..Len(new) : AEIdx(new[j]) = i
                     THEN AEEnt(new[CHOOSE j \in 1..Len(new) : AEIdx(new[j]) = i])
                     ELSE logD[i]]
      s4       == IF Len(new) = 0 THEN [s3 EXCEPT !.log = logD]
                  ELSE [ApplyCfgEntries(s3, new, 1) EXCEPT !.log = logN,
                          !.llog = <<AEIdx(new[Len(new)]), new[Len(new)][2]>>]
      \* only entries up to the last one checked against the leader by THIS request may be committed
      cidx     == Min(m.commit, Min(LastIndex(s4), m.prev + Len(m.entries)))
      doCommit == cidx > s4.commit
      s5       == IF ~doCommit THEN s4
                  ELSE LET a == [s4 EXCEPT !.commit = cidx]
                           b == IF a.cli <= cidx THEN [a EXCEPT !.cc = a.cl, !.cci = a.cli] ELSE a
                       IN IF cidx > b.applied THEN [b EXCEPT !.applied = cidx] ELSE b
  IN
  IF missing THEN [st |-> s2, resp |-> resp1]
  ELSE [st |-> s5, resp |-> [resp1 EXCEPT !.ok = TRUE]]

-----------------------------------------------------------------------------
(* raft.go installSnapshot.  m = [term, leader, idx, sterm, cfg, cfgidx]        *)
ISHandle(s, m, mono, trailing) ==
  IF m.term < s.term THEN [st |-> s, resp |-> [term |-> s.term, ok |-> FALSE]]
  ELSE
  LET bump == m.term > s.term
      s1   == IF bump THEN [s EXCEPT !.role = "F", !.term = m.term, !.ct = m.term] ELSE s
      s2   == [s1 EXCEPT !.leader = m.leader, !.applied = m.idx, !.lsnap = <<m.idx, m.sterm>>,
                          !.cl = m.cfg, !.cli = m.cfgidx, !.cc = m.cfg, !.cci = m.cfgidx]
      first == LogFirst(s2.log)
      \* a monotonic store is wiped unless the log holds the snapshot's last entry (then a prefix
      \* deletion cannot leave a gap); after a wipe the snapshot is the cached last entry
      holds == m.idx \in DOMAIN s2.log /\ s2.log[m.idx][1] = m.sterm
      wipe == mono /\ ~holds
      rng  == IF wipe THEN (IF DOMAIN s2.log = {} THEN <<0, 0>>
                            ELSE CompactRange(first, LogLast(s2.log), LogLast(s2.log), 0))
              ELSE CompactRange(first, m.idx, s2.llog[1], trailing)
      lg   == IF rng = <<0, 0>> THEN s2.log ELSE DelRange(s2.log, rng[1], rng[2])
      s3   == IF wipe THEN [s2 EXCEPT !.llog = <<m.idx, m.sterm>>] ELSE s2
  IN [st |-> [s3 EXCEPT !.log = lg], resp |-> [term |-> s1.term, ok |-> TRUE]]

=============================================================================
