------------------------------ MODULE LogCache ------------------------------
(***************************************************************************)
(* LogCache (log_cache.go): a ring of `Cap` slots in front of a LogStore.   *)
(* Entries are distinguished by (index, version) so that a rewrite of an    *)
(* index after a truncation is visible.  The whole reachable state graph is *)
(* enumerated; every edge is printed and replayed on the REAL LogCache over *)
(* a real InmemStore (harness/comp), C19's transparency is an invariant.    *)
(***************************************************************************)
EXTENDS Integers, Sequences, FiniteSets, TLC, Json

CONSTANTS N,        \* indexes 1..N
          Cap,      \* ring capacity
          MaxVer,   \* each index is written at most MaxVer times
          MaxBatch  \* StoreLogs batch length

VARIABLES be,       \* backend: [index -> version], 0 = absent
          cache,    \* [0..Cap-1 -> <<index, version>>], <<0,0>> = empty slot
          nextver   \* [index -> version the next write of it gets]
vars == <<be, cache, nextver>>

Idx == 1..N
Slot(i) == i % Cap

CacheGet(i)   == IF cache[Slot(i)][1] = i THEN cache[Slot(i)][2] ELSE be[i]     \* LogCache.GetLog
BackendGet(i) == be[i]
First(b) == IF {i \in Idx : b[i] # 0} = {} THEN 0 ELSE CHOOSE i \in Idx : b[i] # 0 /\ \A j \in Idx : b[j] # 0 => i <= j
Last(b)  == IF {i \in Idx : b[i] # 0} = {} THEN 0 ELSE CHOOSE i \in Idx : b[i] # 0 /\ \A j \in Idx : b[j] # 0 => j <= i

Init == /\ be = [i \in Idx |-> 0]
        /\ cache = [s \in 0..(Cap - 1) |-> <<0, 0>>]
        /\ nextver = [i \in Idx |-> 1]

RECURSIVE Fill(_, _, _)
Fill(c, i, j) == IF i > j THEN c ELSE Fill([c EXCEPT ![Slot(i)] = <<i, nextver[i]>>], i + 1, j)

Emit(op) == PrintT("EDGE|" \o ToJson([pre |-> [be |-> be, cache |-> cache, nv |-> nextver], op |-> op,
                                      post |-> [be |-> be', cache |-> cache', nv |-> nextver'],
                                      gets |-> [i \in Idx |-> (IF cache'[Slot(i)][1] = i THEN cache'[Slot(i)][2] ELSE be'[i])]]))

StoreLogs(i, j, fail) ==
  /\ i <= j /\ j - i < MaxBatch /\ \A k \in i..j : nextver[k] <= MaxVer
  /\ IF fail THEN UNCHANGED vars
     ELSE /\ be' = [k \in Idx |-> IF k \in i..j THEN nextver[k] ELSE be[k]]
          /\ cache' = Fill(cache, i, j)
          /\ nextver' = [k \in Idx |-> IF k \in i..j THEN nextver[k] + 1 ELSE nextver[k]]
  /\ Emit([k |-> "store", i |-> i, j |-> j, fail |-> fail])

\* a batch with a gap: exactly the indexes i and j (the LogStore API does not require contiguity; when j - i is a
\* multiple of Cap both land in the same slot)
StoreGap(i, j, fail) ==
  /\ j > i + 1 /\ nextver[i] <= MaxVer /\ nextver[j] <= MaxVer
  /\ IF fail THEN UNCHANGED vars
     ELSE /\ be' = [k \in Idx |-> IF k \in {i, j} THEN nextver[k] ELSE be[k]]
          /\ cache' = [[cache EXCEPT ![Slot(i)] = <<i, nextver[i]>>] EXCEPT ![Slot(j)] = <<j, nextver[j]>>]
          /\ nextver' = [k \in Idx |-> IF k \in {i, j} THEN nextver[k] + 1 ELSE nextver[k]]
  /\ Emit([k |-> "storegap", i |-> i, j |-> j, fail |-> fail])

DeleteRange(lo, hi, fail) ==
  /\ lo <= hi
  /\ cache' = [s \in 0..(Cap - 1) |-> <<0, 0>>]
  /\ be' = IF fail THEN be ELSE [k \in Idx |-> IF k \in lo..hi THEN 0 ELSE be[k]]
  /\ UNCHANGED nextver
  /\ Emit([k |-> "delete", i |-> lo, j |-> hi, fail |-> fail])

Next == \/ \E i, j \in Idx, f \in BOOLEAN : StoreLogs(i, j, f)
        \/ \E i, j \in Idx, f \in BOOLEAN : StoreGap(i, j, f)
        \/ \E i, j \in Idx, f \in BOOLEAN : DeleteRange(i, j, f)
Spec == Init /\ [][Next]_vars

\* C19
Transparent == \A i \in Idx : CacheGet(i) = BackendGet(i)
Coherent == \A s \in 0..(Cap - 1) : cache[s][1] # 0 => be[cache[s][1]] = cache[s][2]
=============================================================================
