SPECIFICATION Spec
CONSTANTS
  Suite = "ae"
  MaxLen = 2
  MaxT = 3
CHECK_DEADLOCK FALSE
