---- MODULE FastPath_TTrace_1790255764 ----
EXTENDS Sequences, TLCExt, FastPath, Toolbox, Naturals, TLC

_expression ==
    LET FastPath_TEExpression == INSTANCE FastPath_TEExpression
    IN FastPath_TEExpression!expression
----

_trace ==
    LET FastPath_TETrace == INSTANCE FastPath_TETrace
    IN FastPath_TETrace!trace
----

_inv ==
    ~(
        TLCGet("level") = Len(_TETrace)
        /\
        elTerm = (2)
        /\
        envLed = ({3})
        /\
        leader = ("S")
        /\
        role = ("L")
        /\
        hiTerm = (3)
        /\
        acts = ({})
        /\
        disk = (3)
        /\
        notif = (<<>>)
        /\
        pc = ("run")
        /\
        won = ({2})
        /\
        votes = ({})
        /\
        term = (3)
        /\
        pend = (2)
    )
----

_init ==
    /\ leader = _TETrace[1].leader
    /\ acts = _TETrace[1].acts
    /\ elTerm = _TETrace[1].elTerm
    /\ pend = _TETrace[1].pend
    /\ pc = _TETrace[1].pc
    /\ disk = _TETrace[1].disk
    /\ hiTerm = _TETrace[1].hiTerm
    /\ envLed = _TETrace[1].envLed
    /\ votes = _TETrace[1].votes
    /\ notif = _TETrace[1].notif
    /\ term = _TETrace[1].term
    /\ role = _TETrace[1].role
    /\ won = _TETrace[1].won
----

_next ==
    /\ \E i,j \in DOMAIN _TETrace:
        /\ \/ /\ j = i + 1
              /\ i = TLCGet("level")
        /\ leader  = _TETrace[i].leader
        /\ leader' = _TETrace[j].leader
        /\ acts  = _TETrace[i].acts
        /\ acts' = _TETrace[j].acts
        /\ elTerm  = _TETrace[i].elTerm
        /\ elTerm' = _TETrace[j].elTerm
        /\ pend  = _TETrace[i].pend
        /\ pend' = _TETrace[j].pend
        /\ pc  = _TETrace[i].pc
        /\ pc' = _TETrace[j].pc
        /\ disk  = _TETrace[i].disk
        /\ disk' = _TETrace[j].disk
        /\ hiTerm  = _TETrace[i].hiTerm
        /\ hiTerm' = _TETrace[j].hiTerm
        /\ envLed  = _TETrace[i].envLed
        /\ envLed' = _TETrace[j].envLed
        /\ votes  = _TETrace[i].votes
        /\ votes' = _TETrace[j].votes
        /\ notif  = _TETrace[i].notif
        /\ notif' = _TETrace[j].notif
        /\ term  = _TETrace[i].term
        /\ term' = _TETrace[j].term
        /\ role  = _TETrace[i].role
        /\ role' = _TETrace[j].role
        /\ won  = _TETrace[i].won
        /\ won' = _TETrace[j].won

\* Uncomment the ASSUME below to write the states of the error trace
\* to the given file in Json format. Note that you can pass any tuple
\* to `JsonSerialize`. For example, a sub-sequence of _TETrace.
    \* ASSUME
    \*     LET J == INSTANCE Json
    \*         IN J!JsonSerialize("FastPath_TTrace_1790255764.json", _TETrace)

=============================================================================

 Note that you can extract this module `FastPath_TEExpression`
  to a dedicated file to reuse `expression` (the module in the 
  dedicated `FastPath_TEExpression.tla` file takes precedence 
  over the module `FastPath_TEExpression` below).

---- MODULE FastPath_TEExpression ----
EXTENDS Sequences, TLCExt, FastPath, Toolbox, Naturals, TLC

expression == 
    [
        \* To hide variables of the `FastPath` spec from the error trace,
        \* remove the variables below.  The trace will be written in the order
        \* of the fields of this record.
        leader |-> leader
        ,acts |-> acts
        ,elTerm |-> elTerm
        ,pend |-> pend
        ,pc |-> pc
        ,disk |-> disk
        ,hiTerm |-> hiTerm
        ,envLed |-> envLed
        ,votes |-> votes
        ,notif |-> notif
        ,term |-> term
        ,role |-> role
        ,won |-> won
        
        \* Put additional constant-, state-, and action-level expressions here:
        \* ,_stateNumber |-> _TEPosition
        \* ,_leaderUnchanged |-> leader = leader'
        
        \* Format the `leader` variable as Json value.
        \* ,_leaderJson |->
        \*     LET J == INSTANCE Json
        \*     IN J!ToJson(leader)
        
        \* Lastly, you may build expressions over arbitrary sets of states by
        \* leveraging the _TETrace operator.  For example, this is how to
        \* count the number of times a spec variable changed up to the current
        \* state in the trace.
        \* ,_leaderModCount |->
        \*     LET F[s \in DOMAIN _TETrace] ==
        \*         IF s = 1 THEN 0
        \*         ELSE IF _TETrace[s].leader # _TETrace[s-1].leader
        \*             THEN 1 + F[s-1] ELSE F[s-1]
        \*     IN F[_TEPosition - 1]
    ]

=============================================================================



Parsing and semantic processing can take forever if the trace below is long.
 In this case, it is advised to uncomment the module below to deserialize the
 trace from a generated binary file.

\*
\*---- MODULE FastPath_TETrace ----
\*EXTENDS IOUtils, FastPath, TLC
\*
\*trace == IODeserialize("FastPath_TTrace_1790255764.bin", TRUE)
\*
\*=============================================================================
\*

---- MODULE FastPath_TETrace ----
EXTENDS FastPath, TLC

trace == 
    <<
    ([elTerm |-> 0,envLed |-> {},leader |-> "",role |-> "F",hiTerm |-> 1,acts |-> {},disk |-> 1,notif |-> <<>>,pc |-> "follower",won |-> {},votes |-> {},term |-> 1,pend |-> 0]),
    ([elTerm |-> 0,envLed |-> {},leader |-> "",role |-> "C",hiTerm |-> 1,acts |-> {},disk |-> 1,notif |-> <<>>,pc |-> "run",won |-> {},votes |-> {},term |-> 1,pend |-> 0]),
    ([elTerm |-> 0,envLed |-> {3},leader |-> "",role |-> "C",hiTerm |-> 1,acts |-> {},disk |-> 1,notif |-> <<>>,pc |-> "run",won |-> {},votes |-> {},term |-> 1,pend |-> 0]),
    ([elTerm |-> 0,envLed |-> {3},leader |-> "",role |-> "C",hiTerm |-> 1,acts |-> {},disk |-> 1,notif |-> <<>>,pc |-> "cand",won |-> {},votes |-> {},term |-> 1,pend |-> 0]),
    ([elTerm |-> 0,envLed |-> {3},leader |-> "",role |-> "C",hiTerm |-> 1,acts |-> {},disk |-> 1,notif |-> <<>>,pc |-> "write",won |-> {},votes |-> {},term |-> 1,pend |-> 2]),
    ([elTerm |-> 2,envLed |-> {3},leader |-> "",role |-> "C",hiTerm |-> 2,acts |-> {},disk |-> 2,notif |-> <<>>,pc |-> "wait",won |-> {},votes |-> {},term |-> 2,pend |-> 2]),
    ([elTerm |-> 2,envLed |-> {3},leader |-> "X",role |-> "F",hiTerm |-> 3,acts |-> {},disk |-> 3,notif |-> <<>>,pc |-> "wait",won |-> {},votes |-> {},term |-> 3,pend |-> 2]),
    ([elTerm |-> 2,envLed |-> {3},leader |-> "X",role |-> "F",hiTerm |-> 3,acts |-> {},disk |-> 3,notif |-> <<>>,pc |-> "wait",won |-> {2},votes |-> {2},term |-> 3,pend |-> 2]),
    ([elTerm |-> 2,envLed |-> {3},leader |-> "S",role |-> "L",hiTerm |-> 3,acts |-> {},disk |-> 3,notif |-> <<>>,pc |-> "run",won |-> {2},votes |-> {},term |-> 3,pend |-> 2])
    >>
----


=============================================================================

---- CONFIG FastPath_TTrace_1790255764 ----
CONSTANTS
    MaxTerm = 4
    Fix17 = FALSE
    Fix18 = TRUE
    Fix19 = TRUE
    Fix20 = TRUE
    Atomic = TRUE

INVARIANT
    _inv

CHECK_DEADLOCK
    \* CHECK_DEADLOCK off because of PROPERTY or INVARIANT above.
    FALSE

INIT
    _init

NEXT
    _next

CONSTANT
    _TETrace <- _trace

ALIAS
    _expression
=============================================================================
\* Generated on Thu Sep 24 13:16:05 UTC 2026