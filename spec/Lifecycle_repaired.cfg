SPECIFICATION Spec
CONSTANTS
  Fut = {f1, f2, f3}
  Cap = 2
  HasShutdownCh = FALSE
  Repaired = TRUE
INVARIANTS TypeOK NoStrandedCaller
PROPERTIES NoEnqueueAfterShutdown EveryCallAnswered
CHECK_DEADLOCK FALSE
