\* without repair 4858b58: defect 17 (a late vote makes a follower of a newer term its leader)
SPECIFICATION Spec
CONSTANTS
  MaxTerm = 4
  Fix17 = FALSE
  Fix18 = TRUE
  Fix19 = TRUE
  Fix20 = FALSE
  Atomic = TRUE
INVARIANTS TypeOK LeaderStateInWonTerm
CHECK_DEADLOCK FALSE
