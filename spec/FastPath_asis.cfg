\* the code as it stands (repairs 4858b58, 13cb4f9, ea62232; no term lock): TLC finds open finding 20
SPECIFICATION Spec
CONSTANTS
  MaxTerm = 4
  Fix17 = TRUE
  Fix18 = TRUE
  Fix19 = TRUE
  Fix20 = FALSE
  Atomic = TRUE
INVARIANTS TypeOK TermNeverDecreases
CHECK_DEADLOCK FALSE
