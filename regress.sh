#!/bin/sh
# Runs the quick tier of every check with VERIF_SEED=$1 (used with `vp run`); one line per check.
cd "$(dirname "$0")"
./setup.sh >/dev/null 2>&1 || echo "setup failed"
for i in ${SWEEP:-01 02 03 04 05 06 07 08 09 10 11 12 13 14 17 18 20 15 16 19}; do
  s=$(date +%s)
  VERIF_SEED=$1 ./check C$i quick > regress_$1_C$i.log 2>&1; rc=$?
  e=$(date +%s)
  echo "C$i quick seed=$1 rc=$rc $((e-s))s known=$(grep -c KNOWN-FINDING regress_$1_C$i.log) $(grep -h '^VIOLATION\|INCONCLUSIVE\|PROBLEM\|  predicate' regress_$1_C$i.log | head -3 | cut -c1-260 | tr '\n' ';')"
done
