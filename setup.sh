#!/bin/sh
# Offline setup: parse all specifications, pre-build the harness against /repo with hooks on.
set -e
cd "$(dirname "$0")"
export GOFLAGS=-mod=mod GOPROXY=off GOSUMDB=off GOTOOLCHAIN=local
for f in spec/*.tla; do
  (cd spec && java -cp /opt/veriftools/tla/tla2tools.jar:/opt/veriftools/tla/CommunityModules-deps.jar tla2sany.SANY "$(basename "$f")" >/dev/null) || { echo "SANY failed on $f"; exit 1; }
done
cp /repo/go.sum harness/go.sum
mkdir -p out/bin evidence
(cd harness && go1.26.8 vet -tags verif ./... && go1.26.8 test -tags verif -c -o ../out/bin/sim.test ./sim && go1.26.8 test -tags verif -c -o ../out/bin/l1.test ./l1 && go1.26.8 test -tags verif -c -o ../out/bin/comp.test ./comp)
echo setup ok
