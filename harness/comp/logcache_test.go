// Package comp holds the component harnesses (LogCache, FileSnapshotStore, NetworkTransport).
package comp

import (
	"bufio"
	"encoding/json"
	"errors"
	"fmt"
	"os"
	"strings"
	"testing"

	"github.com/hashicorp/raft"
)

type M = map[string]any

func readRows(t *testing.T, path, prefix string, f func(raw json.RawMessage)) int {
	fh, err := os.Open(path)
	if err != nil {
		t.Fatal(err)
	}
	defer fh.Close()
	sc := bufio.NewScanner(fh)
	sc.Buffer(make([]byte, 1<<20), 1<<24)
	n := 0
	for sc.Scan() {
		ln := strings.TrimSpace(sc.Text())
		if !strings.HasPrefix(ln, `"`+prefix+`|`) {
			continue
		}
		var s string
		if err := json.Unmarshal([]byte(ln), &s); err != nil {
			t.Fatalf("bad TLC string: %v", err)
		}
		f(json.RawMessage(s[len(prefix)+1:]))
		n++
	}
	return n
}

// failStore wraps a LogStore and fails the next mutating call when armed.
type failStore struct {
	raft.LogStore
	failNext bool
}

var errInjected = errors.New("injected backend error")

func (f *failStore) StoreLogs(l []*raft.Log) error {
	if f.failNext {
		f.failNext = false
		return errInjected
	}
	return f.LogStore.StoreLogs(l)
}
func (f *failStore) StoreLog(l *raft.Log) error { return f.StoreLogs([]*raft.Log{l}) }
func (f *failStore) DeleteRange(a, b uint64) error {
	if f.failNext {
		f.failNext = false
		return errInjected
	}
	return f.LogStore.DeleteRange(a, b)
}

type lcState struct {
	Be    []int   `json:"be"`
	Cache map[string][]int `json:"cache"`
	Nv    []int            `json:"nv"`
}
type lcOp struct {
	K    string `json:"k"`
	I    int    `json:"i"`
	J    int    `json:"j"`
	Fail bool   `json:"fail"`
}
type lcEdge struct {
	Pre  lcState `json:"pre"`
	Op   lcOp    `json:"op"`
	Post lcState `json:"post"`
	Gets []int   `json:"gets"`
}

func key(s lcState) string { b, _ := json.Marshal(s); return string(b) }

// TestLogCache replays every edge of the TLC state graph: the pre-state is reached along a shortest
// path from the initial state (the ring cannot be set from outside), then the edge's operation is
// executed on a real LogCache over a real InmemStore and, in lockstep, on a bare InmemStore.
func TestLogCache(t *testing.T) {
	in := os.Getenv("VERIF_IN")
	if in == "" {
		t.Skip("VERIF_IN not set")
	}
	capN := 2
	fmt.Sscan(os.Getenv("VERIF_CAP"), &capN)
	var edges []lcEdge
	readRows(t, in, "EDGE", func(raw json.RawMessage) {
		var e lcEdge
		if err := json.Unmarshal(raw, &e); err != nil {
			t.Fatalf("row: %v %s", err, raw)
		}
		edges = append(edges, e)
	})
	// shortest paths
	out := map[string][]int{}
	for i, e := range edges {
		out[key(e.Pre)] = append(out[key(e.Pre)], i)
	}
	n := len(edges[0].Pre.Be)
	init := lcState{Be: make([]int, n), Cache: map[string][]int{}, Nv: make([]int, n)}
	for i := range init.Nv {
		init.Nv[i] = 1
	}
	for i := 0; i < capN; i++ {
		init.Cache[fmt.Sprint(i)] = []int{0, 0}
	}
	path := map[string][]int{key(init): {}}
	queue := []string{key(init)}
	for len(queue) > 0 {
		s := queue[0]
		queue = queue[1:]
		for _, ei := range out[s] {
			k2 := key(edges[ei].Post)
			if _, ok := path[k2]; !ok {
				path[k2] = append(append([]int(nil), path[s]...), ei)
				queue = append(queue, k2)
			}
		}
	}
	w, err := os.Create(os.Getenv("VERIF_OUT"))
	if err != nil {
		t.Fatal(err)
	}
	defer w.Close()
	bw := bufio.NewWriterSize(w, 1<<20)
	defer bw.Flush()
	enc := json.NewEncoder(bw)
	ver := func(l *raft.Log) int {
		v := 0
		fmt.Sscan(string(l.Data), &v)
		return v
	}
	replayed := 0
	for ei, e := range edges {
		p, ok := path[key(e.Pre)]
		if !ok {
			t.Fatalf("edge %d: pre-state unreachable", ei)
		}
		backend := &failStore{LogStore: raft.NewInmemStore()}
		lc, _ := raft.NewLogCache(capN, backend)
		bare := raft.NewInmemStore()
		nextver := make([]int, n+1)
		for i := range nextver {
			nextver[i] = 1
		}
		do := func(op lcOp) (errC, errB error) {
			switch op.K {
			case "store":
				var a, b []*raft.Log
				for k := op.I; k <= op.J; k++ {
					d := []byte(fmt.Sprint(nextver[k]))
					a = append(a, &raft.Log{Index: uint64(k), Term: 1, Data: d})
					b = append(b, &raft.Log{Index: uint64(k), Term: 1, Data: d})
				}
				backend.failNext = op.Fail
				errC = lc.StoreLogs(a)
				if !op.Fail {
					errB = bare.StoreLogs(b)
					for k := op.I; k <= op.J; k++ {
						nextver[k]++
					}
				} else {
					errB = errInjected
				}
			case "storegap":
				var a, b []*raft.Log
				for _, k := range []int{op.I, op.J} {
					d := []byte(fmt.Sprint(nextver[k]))
					a = append(a, &raft.Log{Index: uint64(k), Term: 1, Data: d})
					b = append(b, &raft.Log{Index: uint64(k), Term: 1, Data: d})
				}
				backend.failNext = op.Fail
				errC = lc.StoreLogs(a)
				if !op.Fail {
					errB = bare.StoreLogs(b)
					nextver[op.I]++
					nextver[op.J]++
				} else {
					errB = errInjected
				}
			case "delete":
				backend.failNext = op.Fail
				errC = lc.DeleteRange(uint64(op.I), uint64(op.J))
				if !op.Fail {
					errB = bare.DeleteRange(uint64(op.I), uint64(op.J))
				} else {
					errB = errInjected
				}
			}
			backend.failNext = false
			return
		}
		for _, pi := range p {
			do(edges[pi].Op)
		}
		errC, errB := do(e.Op)
		real, alone := make([]int, n), make([]int, n)
		for i := 1; i <= n; i++ {
			var l raft.Log
			if err := lc.GetLog(uint64(i), &l); err == nil {
				real[i-1] = ver(&l)
			} else if err != raft.ErrLogNotFound {
				real[i-1] = -1
			}
			var l2 raft.Log
			if err := bare.GetLog(uint64(i), &l2); err == nil {
				alone[i-1] = ver(&l2)
			}
		}
		f1, _ := lc.FirstIndex()
		l1, _ := lc.LastIndex()
		f2, _ := bare.FirstIndex()
		l2, _ := bare.LastIndex()
		_ = enc.Encode(M{"op": M{"k": e.Op.K, "i": e.Op.I, "j": e.Op.J, "fail": e.Op.Fail}, "pathlen": len(p), "gets": e.Gets, "real": real, "alone": alone,
			"errc": errC != nil, "errb": errB != nil, "first": []uint64{f1, f2}, "last": []uint64{l1, l2}})
		replayed++
	}
	fmt.Printf("LOGCACHE edges=%d states=%d replayed=%d\n", len(edges), len(path), replayed)
}
