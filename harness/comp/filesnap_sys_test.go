package comp

import (
	"os"
	"testing"

	"github.com/hashicorp/raft"
)

// TestFileSnapSyscalls runs a fixed scenario on the real store. It is meant to be run under
// `strace -f`: the system-call log is mapped to events and judged by L1Real.tla (kind "filesys"):
// every byte of state.bin / meta.json must be fsynced before the directory is renamed into place,
// and the parent directory must be fsynced after the rename, before Close returns.
func TestFileSnapSyscalls(t *testing.T) {
	base := os.Getenv("VERIF_FS_DIR")
	if base == "" {
		t.Skip("VERIF_FS_DIR not set")
	}
	store, err := raft.NewFileSnapshotStoreWithLogger(base, 1, quietLogger())
	if err != nil {
		t.Fatal(err)
	}
	_, tr := raft.NewInmemTransport("x")
	cfg := raft.Configuration{Servers: []raft.Server{{ID: "x", Address: "x"}}}
	marker := func(name string) { _, _ = os.Stat("/verif-marker/" + name) }
	for i, mode := range []string{"close", "cancel", "close"} {
		marker("create")
		sink, err := store.Create(1, uint64(10+i), 2, cfg, 1, tr)
		if err != nil {
			t.Fatal(err)
		}
		big := make([]byte, 70000) // larger than the bufio buffer: several write calls
		for j := range big {
			big[j] = byte('a' + (i+j)%26)
		}
		if _, err := sink.Write(big); err != nil {
			t.Fatal(err)
		}
		if _, err := sink.Write([]byte("a short tail that stays in the buffer until Close")); err != nil {
			t.Fatal(err)
		}
		marker(mode)
		if mode == "close" {
			err = sink.Close()
		} else {
			err = sink.Cancel()
		}
		if err != nil {
			t.Fatal(err)
		}
		marker("returned")
	}
}
