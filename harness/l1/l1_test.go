// Package l1 replays TLC-generated tables on the real pure functions of hashicorp/raft
// (commitment, nextConfiguration, compactLogsWithTrailing) through the verif-tagged wrappers
// and writes what the real code returned, for TLC to judge.
package l1

import (
	"bufio"
	"encoding/json"
	"fmt"
	"io"
	"os"
	"sort"
	"strings"
	"testing"
	"time"

	"github.com/hashicorp/go-hclog"
	"github.com/hashicorp/raft"
)

func readRows(t *testing.T, path, prefix string, f func(raw json.RawMessage)) int {
	fh, err := os.Open(path)
	if err != nil {
		t.Fatal(err)
	}
	defer fh.Close()
	sc := bufio.NewScanner(fh)
	sc.Buffer(make([]byte, 1<<20), 1<<24)
	n := 0
	for sc.Scan() {
		ln := strings.TrimSpace(sc.Text())
		if !strings.HasPrefix(ln, `"`+prefix+`|`) {
			continue
		}
		var s string
		if err := json.Unmarshal([]byte(ln), &s); err != nil {
			t.Fatalf("bad TLC string %q: %v", ln[:40], err)
		}
		f(json.RawMessage(s[len(prefix)+1:]))
		n++
	}
	return n
}

// TLC prints an empty function as [] and a non-empty string-keyed one as an object.
type fnMap map[string]uint64

func (m *fnMap) UnmarshalJSON(b []byte) error {
	*m = fnMap{}
	if len(b) > 0 && b[0] == '[' {
		return nil
	}
	return json.Unmarshal(b, (*map[string]uint64)(m))
}

type cstate struct {
	Match  fnMap  `json:"match"`
	Commit uint64 `json:"commit"`
	Start  uint64 `json:"start"`
}

func out(t *testing.T) (*bufio.Writer, func()) {
	p := os.Getenv("VERIF_L1_OUT")
	if p == "" {
		t.Fatal("VERIF_L1_OUT not set")
	}
	fh, err := os.Create(p)
	if err != nil {
		t.Fatal(err)
	}
	w := bufio.NewWriterSize(fh, 1<<20)
	return w, func() { w.Flush(); fh.Close() }
}

func TestCommitment(t *testing.T) {
	in := os.Getenv("VERIF_L1_IN")
	if in == "" {
		t.Skip("VERIF_L1_IN not set")
	}
	w, done := out(t)
	defer done()
	enc := json.NewEncoder(w)
	n := readRows(t, in, "EDGE", func(raw json.RawMessage) {
		var e struct {
			Pre cstate `json:"pre"`
			Op  struct {
				K      string   `json:"k"`
				S      string   `json:"s"`
				I      uint64   `json:"i"`
				Voters []string `json:"voters"`
			} `json:"op"`
			Post cstate `json:"post"`
		}
		if err := json.Unmarshal(raw, &e); err != nil {
			t.Fatalf("row: %v: %s", err, raw)
		}
		m := map[raft.ServerID]uint64{}
		for k, v := range e.Pre.Match {
			m[raft.ServerID(k)] = v
		}
		c := raft.VerifCommitmentFromState(m, e.Pre.Commit, e.Pre.Start)
		switch e.Op.K {
		case "match":
			c.Match(raft.ServerID(e.Op.S), e.Op.I)
		case "setcfg":
			// every server of the universe that is not a voter appears as a non-voter / staging / absent:
			// the real function must give slots to voters only
			var cfg raft.Configuration
			isV := map[string]bool{}
			for _, v := range e.Op.Voters {
				isV[v] = true
				cfg.Servers = append(cfg.Servers, raft.Server{Suffrage: raft.Voter, ID: raft.ServerID(v), Address: raft.ServerAddress(v)})
			}
			for i, s := range []string{"s1", "s2", "s3", "s4"} {
				if !isV[s] && i%2 == 0 {
					cfg.Servers = append(cfg.Servers, raft.Server{Suffrage: raft.Nonvoter, ID: raft.ServerID(s), Address: raft.ServerAddress(s)})
				} else if !isV[s] && i == 1 {
					cfg.Servers = append(cfg.Servers, raft.Server{Suffrage: raft.Staging, ID: raft.ServerID(s), Address: raft.ServerAddress(s)})
				}
			}
			c.SetConfiguration(cfg)
		}
		real := M{"match": M{}, "commit": c.CommitIndex(), "start": e.Pre.Start}
		for k, v := range c.MatchIndexes() {
			real["match"].(M)[string(k)] = v
		}
		vs := e.Op.Voters
		if vs == nil {
			vs = []string{}
		}
		_ = enc.Encode(M{"pre": e.Pre.asM(), "op": M{"k": e.Op.K, "s": e.Op.S, "i": e.Op.I, "voters": vs}, "post": e.Post.asM(), "real": real, "notified": c.Notified()})
	})
	fmt.Printf("L1 commitment rows=%d\n", n)
}

type M = map[string]any

func (c cstate) asM() M {
	m := M{}
	for k, v := range c.Match {
		m[k] = v
	}
	return M{"match": m, "commit": c.Commit, "start": c.Start}
}

type srv struct {
	ID   string `json:"id"`
	Suf  string `json:"suf"`
	Addr string `json:"addr"`
}

func toCfg(s []srv) raft.Configuration {
	var c raft.Configuration
	for _, x := range s {
		suf := raft.Voter
		switch x.Suf {
		case "N":
			suf = raft.Nonvoter
		case "S":
			suf = raft.Staging
		}
		c.Servers = append(c.Servers, raft.Server{Suffrage: suf, ID: raft.ServerID(x.ID), Address: raft.ServerAddress(x.Addr)})
	}
	return c
}

func fromCfg(c raft.Configuration) []srv {
	out := []srv{}
	for _, x := range c.Servers {
		suf := "V"
		switch x.Suffrage {
		case raft.Nonvoter:
			suf = "N"
		case raft.Staging:
			suf = "S"
		}
		out = append(out, srv{string(x.ID), suf, string(x.Address)})
	}
	return out
}

func errClass(err error) string {
	if err == nil {
		return ""
	}
	s := err.Error()
	switch {
	case strings.Contains(s, "configuration changed since"):
		return "stale"
	case strings.Contains(s, "empty ID"):
		return "emptyid"
	case strings.Contains(s, "empty address"):
		return "emptyaddr"
	case strings.Contains(s, "duplicate ID"):
		return "dupid"
	case strings.Contains(s, "duplicate address"):
		return "dupaddr"
	case strings.Contains(s, "at least one voter"):
		return "novoter"
	}
	return "other:" + s
}

func TestConfiguration(t *testing.T) {
	in := os.Getenv("VERIF_L1_IN")
	if in == "" {
		t.Skip("VERIF_L1_IN not set")
	}
	w, done := out(t)
	defer done()
	enc := json.NewEncoder(w)
	cmds := map[string]raft.ConfigurationChangeCommand{"AddVoter": raft.AddVoter, "AddNonvoter": raft.AddNonvoter,
		"DemoteVoter": raft.DemoteVoter, "RemoveServer": raft.RemoveServer, "Promote": raft.Promote}
	n := readRows(t, in, "ROW", func(raw json.RawMessage) {
		var r struct {
			Cur      []srv  `json:"cur"`
			CurIndex uint64 `json:"curIndex"`
			Req      struct {
				Cmd  string `json:"cmd"`
				ID   string `json:"id"`
				Addr string `json:"addr"`
				Prev uint64 `json:"prev"`
			} `json:"req"`
			Res struct {
				Err string `json:"err"`
				Cfg []srv  `json:"cfg"`
			} `json:"res"`
		}
		if err := json.Unmarshal(raw, &r); err != nil {
			t.Fatalf("row: %v: %s", err, raw)
		}
		cur := toCfg(r.Cur)
		before := fromCfg(cur)
		got, err := raft.VerifNextConfiguration(cur, r.CurIndex, cmds[r.Req.Cmd], raft.ServerID(r.Req.ID), raft.ServerAddress(r.Req.Addr), r.Req.Prev)
		after := fromCfg(cur)
		aliased := fmt.Sprint(before) != fmt.Sprint(after)
		// mutate the result: the input must not change (no shared backing array)
		if err == nil && len(got.Servers) > 0 {
			got2 := got.Clone()
			got.Servers[0].Address = "mutated"
			if fmt.Sprint(fromCfg(cur)) != fmt.Sprint(before) {
				aliased = true
			}
			got = got2
		}
		if r.Res.Cfg == nil {
			r.Res.Cfg = []srv{}
		}
		_ = enc.Encode(M{"cur": r.Cur, "curIndex": r.CurIndex, "req": r.Req, "res": r.Res,
			"real": M{"err": errClass(err), "cfg": fromCfg(got)}, "aliased": aliased})
	})
	fmt.Printf("L1 configuration rows=%d\n", n)
}

// recLog records DeleteRange calls and pretends to hold first..last.
type recLog struct {
	first, last uint64
	dels        [][2]uint64
}

func (l *recLog) FirstIndex() (uint64, error)            { return l.first, nil }
func (l *recLog) LastIndex() (uint64, error)             { return l.last, nil }
func (l *recLog) GetLog(i uint64, lg *raft.Log) error    { return raft.ErrLogNotFound }
func (l *recLog) StoreLog(lg *raft.Log) error            { return nil }
func (l *recLog) StoreLogs(lgs []*raft.Log) error        { return nil }
func (l *recLog) DeleteRange(min, max uint64) error      { l.dels = append(l.dels, [2]uint64{min, max}); return nil }

func TestCompaction(t *testing.T) {
	in := os.Getenv("VERIF_L1_IN")
	if in == "" {
		t.Skip("VERIF_L1_IN not set")
	}
	w, done := out(t)
	defer done()
	enc := json.NewEncoder(w)
	conf := raft.DefaultConfig()
	conf.LocalID = "x"
	conf.HeartbeatTimeout, conf.ElectionTimeout, conf.LeaderLeaseTimeout = time.Hour, time.Hour, time.Hour
	conf.Logger = hclog.New(&hclog.LoggerOptions{Output: io.Discard, Level: hclog.Off})
	rl := &recLog{}
	_, tr := raft.NewInmemTransport("x")
	r, err := raft.NewRaft(conf, &raft.MockFSM{}, rl, raft.NewInmemStore(), raft.NewInmemSnapshotStore(), tr)
	if err != nil {
		t.Fatal(err)
	}
	defer r.Shutdown()
	n := readRows(t, in, "ROW", func(raw json.RawMessage) {
		var row struct {
			First, Snap, Last, Trailing uint64
			Del                         []uint64
		}
		if err := json.Unmarshal(raw, &row); err != nil {
			t.Fatalf("row: %v: %s", err, raw)
		}
		rl.first, rl.last, rl.dels = row.First, row.Last, nil
		err := r.VerifCompactLogsWithTrailing(row.Snap, row.Last, row.Trailing)
		real := []uint64{0, 0}
		if len(rl.dels) == 1 {
			real = []uint64{rl.dels[0][0], rl.dels[0][1]}
		} else if len(rl.dels) > 1 {
			real = []uint64{9999, uint64(len(rl.dels))}
		}
		e := ""
		if err != nil {
			e = err.Error()
		}
		_ = enc.Encode(M{"first": row.First, "snap": row.Snap, "last": row.Last, "trailing": row.Trailing, "del": row.Del, "real": real, "err": e})
	})
	fmt.Printf("L1 compaction rows=%d\n", n)
}

var _ = sort.Strings
