package sim

import (
	"encoding/json"
	"fmt"
	"testing"
	"time"

	"github.com/hashicorp/raft"
)

// L2: ONE real node against a scripted environment. A case gives the durable image the node is
// started from and a list of steps (requests injected on behalf of peers that do not exist,
// store faults, restarts). Everything is recorded as an ordinary trace, so HRaftTrace.tla
// evaluates the step predicates and the handler operators on it.

type L2Entry [4]any // [index, term, type, id]

type L2Case struct {
	ID  int    `json:"id"`
	Img struct {
		CT   uint64    `json:"ct"`
		VT   uint64    `json:"vt"`
		VC   string    `json:"vc"`
		Log  []L2Entry `json:"log"`
		Snap []uint64  `json:"snap"` // [idx, term] or empty
		DC   uint64    `json:"dcommit"`
		SCfg string    `json:"scfg"` // "other": the snapshot carries a later configuration than the log's bootstrap entry
	} `json:"img"`
	Flavor string   `json:"flavor"` // "", "mono", "ct"
	Steps  []L2Step `json:"steps"`
}

type L2Step struct {
	K       string         `json:"k"`   // ae rv pv tn is restart
	Src     string         `json:"src"` // pretended sender
	Req     map[string]any `json:"req"`
	CrashAt int            `json:"crashat"` // crash before the k-th store write of this step
	FailAt  int            `json:"failat"`  // the k-th failable store write of this step fails
}

func num(v any) uint64 {
	switch x := v.(type) {
	case float64:
		return uint64(x)
	case int:
		return uint64(x)
	}
	return 0
}

var l2Cfg = map[string]string{"n1": "V", "n2": "V", "n3": "V"}

func mkLog(e L2Entry) *raft.Log {
	l := &raft.Log{Index: num(e[0]), Term: num(e[1])}
	switch e[2].(string) {
	case "cfg":
		l.Type = raft.LogConfiguration
		l.Data = raft.EncodeConfiguration(mkConfiguration(l2Cfg))
	case "noop":
		l.Type = raft.LogNoop
	default:
		l.Type = raft.LogCommand
		l.Data = []byte(e[3].(string))
	}
	return l
}

// Inject hands a request to dst as if src had sent it, and returns after the step settled.
func (c *Cluster) Inject(src, dst, kind string, req any) *Rpc {
	n := c.Net
	n.mu.Lock()
	n.nextID++
	r := &Rpc{ID: n.nextID, Kind: kind, Src: src, Dst: dst, SrcInc: -7, Req: req, Phase: phReq, done: make(chan error, 1)}
	n.pending = append(n.pending, r)
	n.mu.Unlock()
	if n.Deliver(r) {
		c.Settle("deliver")
		// the answer goes nowhere
		for _, p := range n.Pending() {
			if p == r && p.Phase == phHandled {
				n.mu.Lock()
				p.Phase = phDone
				n.remove(p)
				n.mu.Unlock()
			}
		}
	} else {
		c.Settle("deliver")
	}
	return r
}

func hdr(src string) raft.RPCHeader {
	return raft.RPCHeader{ProtocolVersion: raft.ProtocolVersionMax, ID: []byte(src), Addr: []byte(src)}
}

// RunL2Case executes one case and returns the cluster (trace inside).
func RunL2Case(t *testing.T, cs *L2Case) *Cluster {
	opt := DefaultOptions(int64(cs.ID))
	opt.Family = "l2"
	opt.Heartbeat, opt.Election, opt.Lease = time.Hour, time.Hour, time.Hour
	opt.CommitTO = time.Hour
	opt.SnapIntv = 24 * time.Hour
	opt.Trailing = 1
	opt.MaxAppend = 4
	opt.Mono = cs.Flavor == "mono"
	opt.CommitTrack = cs.Flavor == "ct"
	c := NewCluster(t, opt)
	n := c.byID["n1"]
	d := n.disk
	d.kvInt["CurrentTerm"] = cs.Img.CT
	if cs.Img.VT != 0 {
		d.kvInt["LastVoteTerm"] = cs.Img.VT
	}
	if cs.Img.VC != "" {
		d.kv["LastVoteCand"] = []byte(cs.Img.VC)
	}
	for _, e := range cs.Img.Log {
		l := mkLog(e)
		d.logs[l.Index] = l
	}
	d.logVer++
	d.commit = cs.Img.DC
	if len(cs.Img.Snap) == 2 && cs.Img.Snap[0] > 0 {
		scfg, scfgIdx := mkConfiguration(l2Cfg), uint64(1)
		if cs.Img.SCfg == "other" {
			scfg, scfgIdx = mkConfiguration(map[string]string{"n1": "V", "n2": "V", "n3": "V", "n4": "N"}), cs.Img.Snap[0]
			c.cfgStr(scfg)
		}
		d.snaps = append(d.snaps, &snapRec{ID: fmt.Sprintf("%d-%d-img", cs.Img.Snap[1], cs.Img.Snap[0]), Index: cs.Img.Snap[0], Term: cs.Img.Snap[1],
			Cfg: scfg, CfgIndex: scfgIdx, Data: encodeContent(nil), Seq: 1})
		d.snapVer++
	}
	c.cfgStr(mkConfiguration(l2Cfg))
	if !c.Start("n1") {
		return c
	}
	for _, st := range cs.Steps {
		if st.K == "restart" {
			if n.Up {
				c.Crash("n1")
			}
			c.Start("n1")
			continue
		}
		if !n.Up {
			continue
		}
		n.inc.mu.Lock()
		n.inc.crashAt, n.inc.failAt = st.CrashAt, st.FailAt
		n.inc.mu.Unlock()
		var req any
		b, _ := json.Marshal(st.Req)
		switch st.K {
		case "ae", "hb":
			var q struct {
				Term, Prev, Prevterm, Commit uint64
				Entries                      []L2Entry
			}
			_ = json.Unmarshal(b, &q)
			r := &raft.AppendEntriesRequest{RPCHeader: hdr(st.Src), Term: q.Term, Leader: []byte(st.Src), PrevLogEntry: q.Prev, PrevLogTerm: q.Prevterm, LeaderCommitIndex: q.Commit}
			for _, e := range q.Entries {
				r.Entries = append(r.Entries, mkLog(e))
			}
			req = r
		case "rv":
			var q struct {
				Term, Lli, Llt uint64
				Xfer           bool
			}
			_ = json.Unmarshal(b, &q)
			req = &raft.RequestVoteRequest{RPCHeader: hdr(st.Src), Term: q.Term, Candidate: []byte(st.Src), LastLogIndex: q.Lli, LastLogTerm: q.Llt, LeadershipTransfer: q.Xfer}
		case "pv":
			var q struct{ Term, Lli, Llt uint64 }
			_ = json.Unmarshal(b, &q)
			req = &raft.RequestPreVoteRequest{RPCHeader: hdr(st.Src), Term: q.Term, LastLogIndex: q.Lli, LastLogTerm: q.Llt}
		case "tn":
			req = &raft.TimeoutNowRequest{RPCHeader: hdr(st.Src)}
		default:
			continue
		}
		c.Inject(st.Src, "n1", st.K, req)
		// vote requests the node sends after a TimeoutNow go to peers that do not exist
		for _, p := range c.Net.Pending() {
			if p.Src == "n1" {
				c.Net.FailBefore(p)
				c.Settle("drop")
			}
		}
		n.inc.mu.Lock()
		n.inc.crashAt, n.inc.failAt = 0, 0
		n.inc.mu.Unlock()
	}
	return c
}
