package sim

import (
	"encoding/json"
	"fmt"
	"io"
	"strings"
	"sync"

	"github.com/hashicorp/raft"
)

// SimFSM is the instrumented user state machine. Its state is the ordered list
// of payload ids it has been given ("content"), so a snapshot's content can be
// compared literally with the committed history.
type SimFSM struct {
	inc     *Incarnation
	mu      sync.Mutex
	content []string
	lastIdx uint64
	gated   bool
	permits chan struct{}
	waiting int
}

func newSimFSM(inc *Incarnation) *SimFSM {
	return &SimFSM{inc: inc, permits: make(chan struct{}, 1024)}
}

func payloadID(l *raft.Log) string {
	switch l.Type {
	case raft.LogCommand:
		return string(l.Data)
	case raft.LogNoop:
		return "noop"
	case raft.LogBarrier:
		return "bar"
	case raft.LogConfiguration:
		return "cfg"
	}
	return fmt.Sprintf("t%d", l.Type)
}

func (f *SimFSM) dead() bool {
	f.inc.mu.Lock()
	defer f.inc.mu.Unlock()
	return f.inc.dead
}

func (f *SimFSM) gate() {
	f.mu.Lock()
	g := f.gated && !f.inc.starting
	if g {
		f.waiting++
	}
	f.mu.Unlock()
	if !g {
		return
	}
	<-f.permits
	f.mu.Lock()
	f.waiting--
	f.mu.Unlock()
}

// Waiting reports how many FSM calls are parked.
func (f *SimFSM) Waiting() int {
	f.mu.Lock()
	defer f.mu.Unlock()
	return f.waiting
}

func (f *SimFSM) Release(n int) {
	for i := 0; i < n; i++ {
		select {
		case f.permits <- struct{}{}:
		default:
		}
	}
}

func (f *SimFSM) SetGated(g bool) {
	f.mu.Lock()
	f.gated = g
	w := f.waiting
	f.mu.Unlock()
	if !g {
		f.Release(w + 8)
	}
}

func (f *SimFSM) applyOne(l *raft.Log) interface{} {
	id := payloadID(l)
	f.mu.Lock()
	if l.Type == raft.LogCommand {
		f.content = append(f.content, id)
	}
	f.lastIdx = l.Index
	f.mu.Unlock()
	if !f.dead() {
		f.inc.node.c.Tr.Emit("fsm", f.inc.node.ID, M{"op": "apply", "idx": l.Index, "term": l.Term, "ty": typeStr(l.Type), "id": id})
	}
	return fmt.Sprintf("r:%d:%s", l.Index, id)
}

func (f *SimFSM) Apply(l *raft.Log) interface{} {
	f.gate()
	return f.applyOne(l)
}

type simFSMSnapshot struct {
	data       []byte
	leaveClose bool // the FSM leaves closing the sink to the library (takeSnapshot closes it after Persist)
}

func (s *simFSMSnapshot) Persist(sink raft.SnapshotSink) error {
	if _, err := sink.Write(s.data); err != nil {
		_ = sink.Cancel()
		return err
	}
	if s.leaveClose {
		return nil
	}
	return sink.Close()
}
func (s *simFSMSnapshot) Release() {}

type snapPayload struct {
	IDs []string `json:"ids"`
}

func encodeContent(ids []string) []byte {
	if ids == nil {
		ids = []string{}
	}
	b, _ := json.Marshal(snapPayload{IDs: ids})
	return b
}

func snapContent(data []byte) []string {
	var p snapPayload
	if err := json.Unmarshal(data, &p); err != nil {
		return []string{"?corrupt"}
	}
	if p.IDs == nil {
		return []string{}
	}
	return p.IDs
}

func (f *SimFSM) Snapshot() (raft.FSMSnapshot, error) {
	f.gate()
	f.mu.Lock()
	c := append([]string(nil), f.content...)
	li := f.lastIdx
	f.mu.Unlock()
	if !f.dead() {
		f.inc.node.c.Tr.Emit("fsm", f.inc.node.ID, M{"op": "snapshot", "idx": li, "content": strs(c)})
	}
	return &simFSMSnapshot{data: encodeContent(c), leaveClose: f.inc.node.c.Opt.Seed%3 == 1}, nil
}

func (f *SimFSM) Restore(rc io.ReadCloser) error {
	f.gate()
	b, err := io.ReadAll(rc)
	if err != nil {
		return err
	}
	c := snapContent(b)
	f.mu.Lock()
	f.content = append([]string(nil), c...)
	f.mu.Unlock()
	if !f.dead() {
		f.inc.node.c.Tr.Emit("fsm", f.inc.node.ID, M{"op": "restore", "content": strs(c)})
	}
	return nil
}

// Content returns a copy of the FSM state.
func (f *SimFSM) Content() []string {
	f.mu.Lock()
	defer f.mu.Unlock()
	return append([]string(nil), f.content...)
}

func strs(s []string) []string {
	if s == nil {
		return []string{}
	}
	return s
}

// SimFSMBatch implements raft.BatchingFSM.
type SimFSMBatch struct{ *SimFSM }

func (f *SimFSMBatch) ApplyBatch(logs []*raft.Log) []interface{} {
	f.gate()
	out := make([]interface{}, len(logs))
	for i, l := range logs {
		if l.Type == raft.LogConfiguration {
			// BatchingFSM is handed configuration entries too
			if !f.dead() {
				f.inc.node.c.Tr.Emit("fsm", f.inc.node.ID, M{"op": "batchcfg", "idx": l.Index, "term": l.Term})
			}
			out[i] = nil
			continue
		}
		out[i] = f.applyOne(l)
	}
	return out
}

// SimFSMCfg implements raft.ConfigurationStore.
type SimFSMCfg struct{ *SimFSM }

func (f *SimFSMCfg) StoreConfiguration(index uint64, configuration raft.Configuration) {
	f.mu.Lock()
	f.lastIdx = index
	f.mu.Unlock()
	if !f.dead() {
		f.inc.node.c.Tr.Emit("fsm", f.inc.node.ID, M{"op": "storecfg", "idx": index, "cfg": f.inc.node.c.cfgStr(configuration)})
	}
}

func typeStr(t raft.LogType) string {
	switch t {
	case raft.LogCommand:
		return "cmd"
	case raft.LogNoop:
		return "noop"
	case raft.LogBarrier:
		return "bar"
	case raft.LogConfiguration:
		return "cfg"
	case raft.LogAddPeerDeprecated:
		return "addpeer"
	case raft.LogRemovePeerDeprecated:
		return "rmpeer"
	}
	return "unk"
}

var _ = strings.Join
