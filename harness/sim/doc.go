// Package sim is the deterministic virtual-time simulator for real hashicorp/raft nodes.
package sim

import _ "github.com/hashicorp/raft"
