package sim

import (
	"bufio"
	"encoding/json"
	"os"
	"sync"
	"time"
)

// M is one JSON object.
type M = map[string]any

// Tracer collects ndjson trace lines. One line per atomic observable step; the
// sequence number is taken under the tracer mutex at the linearisation point
// (inside the gated call that is the step), never from a wall clock.
type Tracer struct {
	mu    sync.Mutex
	seq   int
	lines []M
	start time.Time
	off   bool
}

func NewTracer() *Tracer { return &Tracer{start: time.Now()} }

// Emit appends a line. kv may be nil.
func (t *Tracer) Emit(ev string, node string, kv M) {
	t.mu.Lock()
	defer t.mu.Unlock()
	if t.off {
		return
	}
	t.seq++
	m := M{"ev": ev, "seq": t.seq, "t": int64(time.Since(t.start) / time.Microsecond)}
	if node != "" {
		m["n"] = node
	}
	for k, v := range kv {
		m[k] = v
	}
	t.lines = append(t.lines, m)
}

func (t *Tracer) Len() int {
	t.mu.Lock()
	defer t.mu.Unlock()
	return len(t.lines)
}

// Lines returns the collected lines (not a copy; call after the run).
func (t *Tracer) Lines() []M {
	t.mu.Lock()
	defer t.mu.Unlock()
	return t.lines
}

// PrependHeader puts a header line in front.
func (t *Tracer) PrependHeader(h M) {
	t.mu.Lock()
	defer t.mu.Unlock()
	h["seq"] = 0
	h["t"] = 0
	t.lines = append([]M{h}, t.lines...)
}

// WriteFile writes the trace as ndjson.
func (t *Tracer) WriteFile(path string) error {
	f, err := os.Create(path)
	if err != nil {
		return err
	}
	defer f.Close()
	w := bufio.NewWriter(f)
	enc := json.NewEncoder(w)
	for _, l := range t.Lines() {
		if err := enc.Encode(l); err != nil {
			return err
		}
	}
	return w.Flush()
}
