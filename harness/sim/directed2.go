package sim

import (
	"testing"
	"time"

	"github.com/hashicorp/raft"
)

// Directed families written after the fifth / sixth batch of seeded changes (DESIGN section 9).

func init() {
	Families["logfail"] = famLogFail
	Families["leaseslowdisk"] = famLeaseSlowDisk
	Families["notifyinflight"] = famNotifyInflight
	Families["fastpathsnap"] = famFastPathSnap
	Families["snapcfgterm"] = famSnapCfgTerm
	Families["restorestale"] = famRestoreStale
	Families["restorefresh"] = famRestoreFresh
	Families["replaceleader"] = famReplaceLeader
}

func othersOf(opt Options, a string) []string {
	var out []string
	for _, id := range opt.Servers {
		if id != a {
			out = append(out, id)
		}
	}
	return out
}

func (c *Cluster) park(id string, k int) {
	n := c.byID[id]
	n.inc.mu.Lock()
	n.inc.parkAt = k
	n.inc.mu.Unlock()
}

func (c *Cluster) unpark(id string) {
	n := c.byID[id]
	if n.inc.Parked() {
		n.inc.Unpark()
		c.Settle("diskdone")
	}
}

// famLogFail (C02, C08, C17): the LEADER's log store refuses one StoreLogs (dispatchLogs answers the batch with the
// error and gives up leadership).
//   variant 0: the refused batch holds two or more commands (they queued up while the main goroutine sat in a slow
//     write); afterwards a single command is written. Every FSM must be handed, at each index, what the logs hold
//     there, and each call must be answered.
//   variant 1: an Apply and a Barrier are in flight and become committed (the followers' acknowledgements arrive)
//     while the main goroutine sits in the slow write of a third call, which then fails: a call answered nil must
//     have gone through the local FSM.
func famLogFail(t *testing.T, seed int64, steps int) *Cluster {
	opt := DefaultOptions(seed)
	opt.Family = "logfail"
	opt.BatchFSM = seed%4 >= 2
	c := NewCluster(t, opt)
	c.Bootstrap()
	c.StartAll()
	L := c.WaitLeader(2 * time.Second)
	if L == "" {
		return c
	}
	for i := 0; i < 1+int(seed%3); i++ {
		c.Apply(L, 0)
		c.Settle("client")
	}
	c.Drive(100*time.Millisecond, nil, nil)
	if c.Leader() != L {
		c.converge(500 * time.Millisecond)
		return c
	}
	ln := c.byID[L]
	var watch []*ClientOp
	if seed%2 == 0 {
		c.park(L, 1)
		watch = append(watch, c.Apply(L, 0))
		c.Settle("client")
		c.Drive(20*time.Millisecond, nil, func() bool { return ln.inc.Parked() })
		for i := 0; i < 2+int(seed/2)%2; i++ {
			watch = append(watch, c.Apply(L, 0))
			c.Settle("client")
		}
		ln.inc.mu.Lock()
		ln.inc.failLogAt = 2 // the parked write completes, the batch behind it is refused
		ln.inc.mu.Unlock()
		c.unpark(L)
		c.Drive(30*time.Millisecond, nil, nil)
		// whoever leads now (the same server if it did not step down) takes one more command, then two
		for k := 1; k <= 2; k++ {
			if x := c.Leader(); x != "" {
				for i := 0; i < k; i++ {
					watch = append(watch, c.Apply(x, 0))
					c.Settle("client")
				}
			}
			c.Drive(6*opt.Election, nil, func() bool { return c.Leader() != "" && c.PendingOps() == 0 })
		}
	} else {
		fromL := func(r *Rpc) bool { return !(r.Src == L && r.Kind == "ae" && r.Phase == phReq) }
		watch = append(watch, c.Apply(L, 0))
		c.Settle("client")
		c.Drive(2*time.Millisecond, fromL, nil)
		watch = append(watch, c.Barrier(L, 0))
		c.Settle("client")
		c.Drive(2*time.Millisecond, fromL, nil)
		c.park(L, 1)
		ln.inc.mu.Lock()
		ln.inc.failLogAt = 1
		ln.inc.mu.Unlock()
		watch = append(watch, c.Apply(L, 0))
		c.Settle("client")
		c.Drive(10*time.Millisecond, fromL, func() bool { return ln.inc.Parked() })
		// the followers store and acknowledge the first two while the leader's main goroutine is busy
		c.Drive(15*time.Millisecond, nil, nil)
		c.unpark(L)
		c.Drive(6*opt.Election, nil, func() bool { return c.Leader() != "" && c.PendingOps() == 0 })
	}
	for _, op := range watch {
		if op != nil {
			c.Tr.Emit("assertdone", op.Node, M{"op": op.ID, "kind": op.Kind, "bound_us": (10 * opt.Election).Microseconds()})
		}
	}
	c.converge(500 * time.Millisecond)
	return c
}

// famLeaseSlowDisk (C13): both followers' disks are slow for longer than the lease while their heartbeat answers
// (fast path) keep arriving; when the slow AppendEntries are finally answered the leader has heard from everybody
// all along and must still be the leader of the same term, also when the next heartbeats are a little late.
func famLeaseSlowDisk(t *testing.T, seed int64, steps int) *Cluster {
	opt := DefaultOptions(seed)
	opt.Family = "leaseslowdisk"
	opt.HBFast = true
	opt.Pipeline = seed%4 == 3
	c := NewCluster(t, opt)
	c.Bootstrap()
	c.StartAll()
	L := c.WaitLeader(2 * time.Second)
	if L == "" {
		return c
	}
	c.Apply(L, 0)
	c.Settle("client")
	c.Drive(100*time.Millisecond, nil, nil)
	if c.Leader() != L {
		c.converge(500 * time.Millisecond)
		return c
	}
	term0 := c.byID[L].Raft.CurrentTerm()
	fs := othersOf(opt, L)
	slow := fs
	if seed%3 == 2 {
		slow = fs[:1] // one slow follower is enough to be wrong about when the other one is cut off afterwards
	}
	for _, f := range slow {
		c.park(f, 1)
	}
	c.Apply(L, 0)
	c.Settle("client")
	// heartbeats keep being answered; the AppendEntries with the entry sit in the followers' slow writes
	end := time.Now().Add(opt.Lease + opt.Lease*time.Duration(2+seed%4)/8)
	for time.Now().Before(end) {
		c.DeliverAll(100)
		c.Tick(2 * time.Millisecond)
	}
	for _, f := range slow {
		c.unpark(f)
	}
	// the answers to the slow requests arrive; the following heartbeats take a little less than one lease timeout
	noHB := func(r *Rpc) bool { return r.Kind != "hb" }
	end = time.Now().Add(opt.Lease - time.Duration(2+seed%4)*time.Millisecond)
	for time.Now().Before(end) {
		c.Drive(0, noHB, nil)
		c.Tick(time.Millisecond)
	}
	end = time.Now().Add(3 * opt.Lease)
	for time.Now().Before(end) {
		c.DeliverAll(100)
		c.Tick(2 * time.Millisecond)
	}
	c.Tr.Emit("assertleader", L, M{"term": term0})
	c.converge(500 * time.Millisecond)
	return c
}

// famNotifyInflight (C17): the application reads its unbuffered NotifyCh only after the call it is waiting for has
// been answered. A leader that loses leadership with calls in flight has to answer them (ErrLeadershipLost) whatever
// its notification consumer is doing.
func famNotifyInflight(t *testing.T, seed int64, steps int) *Cluster {
	opt := DefaultOptions(seed)
	opt.Family = "notifyinflight"
	opt.NotifyBuf = 0
	if seed%3 == 2 {
		opt.NotifyBuf = 1
	}
	c := NewCluster(t, opt)
	c.Bootstrap()
	c.StartAll()
	L := c.WaitLeader(2 * time.Second)
	if L == "" {
		return c
	}
	drainAll := func() {
		for _, n := range c.Nodes {
			for n.Up && c.ConsumeNotify(n.ID) {
				c.Settle("consume")
			}
		}
	}
	c.Drive(60*time.Millisecond, nil, nil)
	drainAll()
	if c.Leader() != L {
		c.autoConsume = true
		c.converge(500 * time.Millisecond)
		return c
	}
	// L is cut off with calls in flight; its consumer waits for them
	c.isolate(L)
	var ops []*ClientOp
	ops = append(ops, c.Apply(L, 0))
	c.Settle("client")
	if seed%2 == 1 {
		ops = append(ops, c.Barrier(L, 0))
		c.Settle("client")
	}
	if seed%4 >= 2 {
		ops = append(ops, c.Verify(L))
		c.Settle("client")
	}
	others := func(r *Rpc) bool { return true }
	c.Drive(6*opt.Election, others, func() bool {
		// every consumer but L's reads promptly
		for _, n := range c.Nodes {
			for n.Up && n.ID != L && c.ConsumeNotify(n.ID) {
				c.Settle("consume")
			}
		}
		return false
	})
	for _, op := range ops {
		if op != nil {
			c.Tr.Emit("assertdone", L, M{"op": op.ID, "kind": op.Kind, "bound_us": (6 * opt.Election).Microseconds()})
		}
	}
	c.healAll()
	c.autoConsume = true
	drainAll()
	c.converge(500 * time.Millisecond)
	return c
}

// famFastPathSnap (C18): a lagging follower C is inside a long InstallSnapshot from leader A (its snapshot store is
// slow) while leadership moves to B; B's heartbeats reach C on the fast path. When the installation completes C is a
// follower of B's term and may only name B.
func famFastPathSnap(t *testing.T, seed int64, steps int) *Cluster {
	opt := DefaultOptions(seed)
	opt.Family = "fastpathsnap"
	opt.HBFast = true
	opt.Trailing = 0
	opt.Mono = seed%4 == 3
	c := NewCluster(t, opt)
	c.Bootstrap()
	c.StartAll()
	A := c.WaitLeader(2 * time.Second)
	if A == "" {
		return c
	}
	fs := othersOf(opt, A)
	B, C := fs[int(seed)%2], fs[1-int(seed)%2]
	c.Apply(A, 0)
	c.Settle("client")
	c.Drive(60*time.Millisecond, nil, nil)
	if c.Leader() != A {
		c.converge(500 * time.Millisecond)
		return c
	}
	c.isolate(C)
	for i := 0; i < 3+int(seed%3); i++ {
		c.Apply(A, 0)
		c.Settle("client")
	}
	c.Drive(60*time.Millisecond, nil, nil)
	sop := c.UserSnapshot(A)
	c.Settle("client")
	c.Drive(200*time.Millisecond, nil, func() bool { return sop != nil && sop.Done })
	if c.Leader() != A {
		c.healAll()
		c.converge(500 * time.Millisecond)
		return c
	}
	// C is back; its first store operation of the installation is slow
	c.healAll()
	cn := c.byID[C]
	var isReq *Rpc
	notIS := func(r *Rpc) bool { return !(r.Kind == "is" && r.Dst == C && r.Phase == phReq) }
	c.Drive(12*time.Second, notIS, func() bool {
		for _, r := range c.Net.Pending() {
			if !notIS(r) {
				isReq = r
				return true
			}
		}
		return false
	})
	parked := false
	if isReq != nil && c.Leader() == A {
		// the first store operation of the installation is slow
		c.park(C, 1)
		c.Net.Deliver(isReq)
		c.Settle("deliver")
		parked = cn.inc.Parked()
	}
	if parked && c.Leader() == A {
		// leadership moves to B; B's heartbeats reach C
		c.Transfer(A, B)
		c.Settle("client")
		c.Drive(6*opt.Election, func(r *Rpc) bool { return r.Dst != C || (r.Src == B && r.Kind == "hb") }, func() bool {
			return c.Leader() == B && c.byID[C].Raft.CurrentTerm() == c.byID[B].Raft.CurrentTerm()
		})
		for i := 0; i < 2; i++ {
			c.exchange("hb", B, C)
		}
	}
	c.unpark(C)
	c.Drive(20*time.Millisecond, func(r *Rpc) bool { return r.Dst != C }, nil)
	c.Drive(200*time.Millisecond, nil, nil)
	c.converge(600 * time.Millisecond)
	return c
}

// famSnapCfgTerm (C04, C11): the last entry a plain FSM saw is a command of term tA; the new majority's entries above
// it are a no-op and a configuration change (nothing reaches the FSM); a snapshot is asked for on the server that
// leads when its last index is exactly the configuration entry's; the deposed leader A holds stale entries of term
// tA up to that very index and is reconnected after the log has been compacted. Whatever the snapshot is labelled
// with, A's log must end up equal to the leader's.
func famSnapCfgTerm(t *testing.T, seed int64, steps int) *Cluster {
	opt := DefaultOptions(seed)
	opt.Family = "snapcfgterm"
	opt.Servers = []string{"n1", "n2", "n3", "n4"}
	opt.Initial = map[string]string{"n1": "V", "n2": "V", "n3": "V"}
	opt.Trailing = uint64(seed % 2)
	opt.MaxAppend = 4
	c := NewCluster(t, opt)
	c.Bootstrap()
	c.StartAll()
	A := c.WaitLeader(2 * time.Second)
	if A == "" {
		return c
	}
	var fs []string
	for _, id := range []string{"n1", "n2", "n3"} {
		if id != A {
			fs = append(fs, id)
		}
	}
	B, C := fs[int(seed/2)%2], fs[1-int(seed/2)%2]
	c.Apply(A, 0)
	c.Settle("client")
	c.Drive(80*time.Millisecond, nil, nil)
	if c.Leader() != A {
		c.converge(500 * time.Millisecond)
		return c
	}
	// A keeps appending on its own: two stale entries of its term
	c.isolate(A)
	c.Apply(A, 0)
	c.Settle("client")
	c.Apply(A, 0)
	c.Settle("client")
	c.dropPendingFrom(A)
	// B wins (C's campaign is held back); its no-op and a membership change take the two indexes
	ok := c.Drive(4*time.Second, func(r *Rpc) bool { return !(r.Src == C && (r.Kind == "pv" || r.Kind == "rv")) }, func() bool {
		return c.byID[B].Raft.State() == raft.Leader && c.byID[B].Raft.CommitIndex() >= c.byID[B].Raft.LastIndex()
	})
	if !ok {
		c.healAll()
		c.converge(600 * time.Millisecond)
		return c
	}
	mop := c.Member(B, "addnonvoter", "n4", 0, 0)
	c.Settle("client")
	c.Drive(300*time.Millisecond, nil, func() bool { return mop != nil && mop.Done })
	// leadership moves to C while its last index is the configuration entry's
	lead := B
	if seed%3 != 0 {
		c.Transfer(B, C)
		c.Settle("client")
		if c.Drive(6*opt.Election, nil, func() bool { return c.byID[C].Raft.State() == raft.Leader && c.byID[C].Raft.CommitIndex() >= c.byID[C].Raft.LastIndex() }) {
			lead = C
		}
	}
	if l := c.Leader(); l != "" && l != A {
		lead = l
	}
	sop := c.UserSnapshot(lead)
	c.Settle("client")
	c.Drive(200*time.Millisecond, nil, func() bool { return sop != nil && sop.Done })
	c.healAll()
	c.Drive(12*time.Second, nil, func() bool {
		l := c.Leader()
		return l != "" && l != A && c.byID[A].Raft.LastIndex() >= c.byID[l].Raft.LastIndex() && c.byID[A].Raft.CurrentTerm() == c.byID[l].Raft.CurrentTerm()
	})
	if l := c.Leader(); l != "" {
		c.Apply(l, 0)
		c.Settle("client")
	}
	c.Drive(200*time.Millisecond, nil, nil)
	c.converge(600 * time.Millisecond)
	return c
}

// famRestoreStale (C20): the deposed leader A holds a stale, never committed suffix that reaches (or passes) the index
// a user Restore burns on the new leader B. After the partition heals A has to end up with the restored state followed
// by the later entries, like everybody else - whatever its log looked like.
func famRestoreStale(t *testing.T, seed int64, steps int) *Cluster {
	opt := DefaultOptions(seed)
	opt.Family = "restorestale"
	opt.Mono = seed%4 == 3
	opt.Trailing = uint64(seed % 3)
	c := NewCluster(t, opt)
	c.Bootstrap()
	c.StartAll()
	A := c.WaitLeader(2 * time.Second)
	if A == "" {
		return c
	}
	fs := othersOf(opt, A)
	B, C := fs[int(seed)%2], fs[1-int(seed)%2]
	for i := 0; i < 1+int(seed%3); i++ {
		c.Apply(A, 0)
		c.Settle("client")
	}
	c.Drive(80*time.Millisecond, nil, nil)
	if c.Leader() != A {
		c.converge(500 * time.Millisecond)
		return c
	}
	c.isolate(A)
	for i := 0; i < 2+int(seed/2)%3; i++ {
		c.Apply(A, 0)
		c.Settle("client")
	}
	c.dropPendingFrom(A)
	ok := c.Drive(4*time.Second, func(r *Rpc) bool { return !(r.Src == C && (r.Kind == "pv" || r.Kind == "rv")) }, func() bool {
		return c.byID[B].Raft.State() == raft.Leader && c.byID[B].Raft.CommitIndex() >= c.byID[B].Raft.LastIndex()
	})
	if !ok {
		c.healAll()
		c.converge(600 * time.Millisecond)
		return c
	}
	if seed%5 == 4 {
		c.Apply(B, 0)
		c.Settle("client")
		c.Drive(40*time.Millisecond, nil, nil)
	}
	rop := c.UserRestore(B, []string{"r1", "r2"}, uint64(seed%2)*3, 1, 0)
	c.Settle("client")
	c.Drive(400*time.Millisecond, nil, func() bool { return rop != nil && rop.Done })
	if l := c.Leader(); l != "" && l != A && seed%2 == 0 {
		c.Apply(l, 0)
		c.Settle("client")
		c.Drive(60*time.Millisecond, nil, nil)
	}
	c.healAll()
	c.Drive(12*time.Second, nil, func() bool {
		l := c.Leader()
		return l != "" && l != A && c.byID[A].Raft.AppliedIndex() >= c.byID[l].Raft.CommitIndex() && c.byID[A].Raft.CurrentTerm() == c.byID[l].Raft.CurrentTerm()
	})
	if l := c.Leader(); l != "" {
		c.Apply(l, 0)
		c.Settle("client")
	}
	c.Drive(200*time.Millisecond, nil, nil)
	c.converge(600 * time.Millisecond)
	return c
}

// famRestoreFresh (C07, C20): a server wins an election and is cut off before its no-op reaches anybody; it is given a
// user Restore (which needs no acknowledgement) and then a membership change. Nothing of its term is committed: the
// change has to wait (and fails when the lease runs out).
func famRestoreFresh(t *testing.T, seed int64, steps int) *Cluster {
	opt := DefaultOptions(seed)
	opt.Family = "restorefresh"
	opt.Servers = []string{"n1", "n2", "n3", "n4"}
	opt.Initial = map[string]string{"n1": "V", "n2": "V", "n3": "V"}
	opt.Lease = 40 * time.Millisecond
	opt.Mono = seed%4 == 3
	c := NewCluster(t, opt)
	c.Bootstrap()
	c.StartAll()
	A := c.WaitLeader(2 * time.Second)
	if A == "" {
		return c
	}
	var fs []string
	for _, id := range []string{"n1", "n2", "n3"} {
		if id != A {
			fs = append(fs, id)
		}
	}
	B := fs[int(seed)%2]
	c.Apply(A, 0)
	c.Settle("client")
	c.Drive(80*time.Millisecond, nil, nil)
	if c.Leader() != A {
		c.converge(500 * time.Millisecond)
		return c
	}
	// leadership moves to B; nothing B sends as leader arrives
	c.Transfer(A, B)
	c.Settle("client")
	quietB := func(r *Rpc) bool { return !(r.Src == B && (r.Kind == "ae" || r.Kind == "hb" || r.Kind == "is")) }
	ok := c.Drive(6*opt.Election, quietB, func() bool { return c.byID[B].Raft.State() == raft.Leader })
	if ok {
		c.isolate(B)
		c.dropPendingFrom(B)
		rop := c.UserRestore(B, []string{"r1"}, uint64(seed%2)*2, 1, 0)
		c.Settle("client")
		c.Drive(10*time.Millisecond, nil, func() bool { return rop != nil && rop.Done })
		cmd := []string{"addnonvoter", "addvoter", "demote"}[int(seed/2)%3]
		tgt := "n4"
		if cmd == "demote" {
			tgt = A
		}
		c.Member(B, cmd, tgt, 0, 0)
		c.Settle("client")
		c.Drive(4*opt.Lease, nil, nil)
	}
	c.healAll()
	c.Drive(300*time.Millisecond, nil, nil)
	c.convergeNoExpect(600 * time.Millisecond)
	return c
}

// famReplaceLeader (C12): a member lags (cut off) while a new voter is added and leadership moves to that new voter.
// The lagging member's own configuration does not contain its new leader; once reachable it must still be caught up.
func famReplaceLeader(t *testing.T, seed int64, steps int) *Cluster {
	opt := DefaultOptions(seed)
	opt.Family = "replaceleader"
	opt.Servers = []string{"n1", "n2", "n3", "n4"}
	opt.Initial = map[string]string{"n1": "V", "n2": "V", "n3": "V"}
	opt.HBFast = seed%4 == 3
	opt.Trailing = uint64(seed % 3)
	c := NewCluster(t, opt)
	c.Bootstrap()
	c.StartAll()
	A := c.WaitLeader(2 * time.Second)
	if A == "" {
		return c
	}
	var fs []string
	for _, id := range []string{"n1", "n2", "n3"} {
		if id != A {
			fs = append(fs, id)
		}
	}
	C := fs[int(seed)%2]
	c.Apply(A, 0)
	c.Settle("client")
	c.Drive(80*time.Millisecond, nil, nil)
	if c.Leader() != A {
		c.converge(500 * time.Millisecond)
		return c
	}
	c.isolate(C)
	c.Start("n4")
	c.Settle("restart")
	mop := c.Member(A, "addvoter", "n4", 0, 0)
	c.Settle("client")
	c.Drive(600*time.Millisecond, nil, func() bool { return mop != nil && mop.Done })
	for i := 0; i < 1+int(seed%3); i++ {
		c.Apply(A, 0)
		c.Settle("client")
	}
	c.Drive(100*time.Millisecond, nil, nil)
	if seed%3 == 1 {
		sop := c.UserSnapshot(A)
		c.Settle("client")
		c.Drive(100*time.Millisecond, nil, func() bool { return sop != nil && sop.Done })
	}
	if c.Leader() == A {
		c.Transfer(A, "n4")
		c.Settle("client")
		c.Drive(6*opt.Election, nil, func() bool {
			return c.byID["n4"].Raft.State() == raft.Leader && c.byID["n4"].Raft.CommitIndex() >= c.byID["n4"].Raft.LastIndex()
		})
	}
	if seed%2 == 1 && c.Leader() == "n4" {
		// the old leader goes away for good: only the new servers can bring C up to date
		c.Crash(A)
		c.Settle("crash")
		c.Opt.KeepMinorityDown = true
	}
	c.healAll()
	c.Drive(300*time.Millisecond, nil, nil)
	c.converge(600 * time.Millisecond)
	return c
}
