//go:debug randseednop=0
package sim

import (
	"fmt"
	"math/rand"
	"os"
	"path/filepath"
	"runtime"
	"strconv"
	"strings"
	"testing"
	"testing/synctest"
	"time"
)

func envInt(k string, def int) int {
	if v := os.Getenv(k); v != "" {
		if x, err := strconv.Atoi(v); err == nil {
			return x
		}
	}
	return def
}

// TestFamily runs VERIF_RUNS seeded runs of the scheduler family VERIF_FAMILY and
// writes one ndjson trace per run into VERIF_OUT.
func TestFamily(t *testing.T) {
	fam := os.Getenv("VERIF_FAMILY")
	if fam == "" {
		t.Skip("VERIF_FAMILY not set")
	}
	out := os.Getenv("VERIF_OUT")
	if out == "" {
		t.Fatal("VERIF_OUT not set")
	}
	_ = os.MkdirAll(out, 0o755)
	seed := envInt("VERIF_SEED", 1)
	runs := envInt("VERIF_RUNS", 1)
	steps := envInt("VERIF_STEPS", 400)
	first := envInt("VERIF_FIRST", 0)
	for _, f := range strings.Split(fam, ",") {
		fn, ok := Families[f]
		if !ok {
			t.Fatalf("unknown family %q", f)
		}
		for i := first; i < first+runs; i++ {
			s := int64(seed)*1000 + int64(i)
			var c *Cluster
			func() {
				// safety net: a goroutine the library leaves blocked for ever (e.g. inside a
				// blocking API call) makes the bubble report a deadlock when it ends; the
				// trace has already recorded the fact, so the run is still usable.
				defer func() {
					if p := recover(); p != nil {
						fmt.Printf("BUBBLE-END %v\n", p)
						buf := make([]byte, 1<<20)
						buf = buf[:runtime.Stack(buf, true)]
						_ = os.WriteFile(filepath.Join(out, fmt.Sprintf("%s-%d.stacks.txt", f, s)), buf, 0o644)
						if c != nil {
							c.Tr.Emit("leak", "", M{"msg": fmt.Sprint(p)})
						}
					}
				}()
				synctest.Test(t, func(t *testing.T) {
					rand.Seed(s)
					c = fn(t, s, steps)
					c.Finish()
				})
			}()
			p := filepath.Join(out, fmt.Sprintf("%s-%d.ndjson", f, s))
			if err := c.Tr.WriteFile(p); err != nil {
				t.Fatal(err)
			}
			fmt.Printf("TRACE %s lines=%d steps=%d\n", p, c.Tr.Len(), c.Steps)
		}
	}
}

var _ = time.Now
