//go:debug randseednop=0
package sim

import (
	"bufio"
	"encoding/json"
	"fmt"
	"math/rand"
	"os"
	"path/filepath"
	"runtime"
	"strconv"
	"strings"
	"testing"
	"testing/synctest"
	"time"
)

func envInt(k string, def int) int {
	if v := os.Getenv(k); v != "" {
		if x, err := strconv.Atoi(v); err == nil {
			return x
		}
	}
	return def
}

// TestFamily runs VERIF_RUNS seeded runs of the scheduler family VERIF_FAMILY and
// writes one ndjson trace per run into VERIF_OUT.
func TestFamily(t *testing.T) {
	fam := os.Getenv("VERIF_FAMILY")
	if fam == "" {
		t.Skip("VERIF_FAMILY not set")
	}
	out := os.Getenv("VERIF_OUT")
	if out == "" {
		t.Fatal("VERIF_OUT not set")
	}
	_ = os.MkdirAll(out, 0o755)
	seed := envInt("VERIF_SEED", 1)
	runs := envInt("VERIF_RUNS", 1)
	steps := envInt("VERIF_STEPS", 400)
	first := envInt("VERIF_FIRST", 0)
	for _, f := range strings.Split(fam, ",") {
		fn, ok := Families[f]
		if !ok {
			t.Fatalf("unknown family %q", f)
		}
		for i := first; i < first+runs; i++ {
			s := int64(seed)*1000 + int64(i)
			var c *Cluster
			// watchdog (real time, outside the bubble): a run that spins without finishing is a harness
			// problem to look at, never a verdict; the goroutine dump says where it spins
			wdStop := make(chan struct{})
			go func(f string, s int64) {
				tk := time.NewTicker(2 * time.Second)
				defer tk.Stop()
				deadline := time.Now().Add(time.Duration(envInt("VERIF_WATCHDOG_S", 240)) * time.Second)
				for {
					select {
					case <-wdStop:
						return
					case <-tk.C:
						var ms runtime.MemStats
						runtime.ReadMemStats(&ms)
						if time.Now().After(deadline) || ms.HeapAlloc > 6<<30 {
							buf := make([]byte, 4<<20)
							buf = buf[:runtime.Stack(buf, true)]
							_ = os.WriteFile(filepath.Join(out, fmt.Sprintf("%s-%d.hang.txt", f, s)), buf, 0o644)
							fmt.Printf("HANG family=%s seed=%d heap=%d\n", f, s, ms.HeapAlloc)
							os.Exit(3)
						}
					}
				}
			}(f, s)
			func() {
				// safety net: a goroutine the library leaves blocked for ever (e.g. inside a
				// blocking API call) makes the bubble report a deadlock when it ends; the
				// trace has already recorded the fact, so the run is still usable.
				defer func() {
					if p := recover(); p != nil {
						fmt.Printf("BUBBLE-END %v\n", p)
						buf := make([]byte, 1<<20)
						buf = buf[:runtime.Stack(buf, true)]
						_ = os.WriteFile(filepath.Join(out, fmt.Sprintf("%s-%d.stacks.txt", f, s)), buf, 0o644)
						if c != nil {
							c.Tr.Emit("leak", "", M{"msg": fmt.Sprint(p)})
						}
					}
				}()
				synctest.Test(t, func(t *testing.T) {
					rand.Seed(s)
					c = fn(t, s, steps)
					c.Finish()
				})
			}()
			close(wdStop)
			p := filepath.Join(out, fmt.Sprintf("%s-%d.ndjson", f, s))
			if err := c.Tr.WriteFile(p); err != nil {
				t.Fatal(err)
			}
			fmt.Printf("TRACE %s lines=%d steps=%d\n", p, c.Tr.Len(), c.Steps)
		}
	}
}

var _ = time.Now

// TestL2 replays TLC-generated single-node cases (VERIF_CASES, one JSON per "CASE|" line) and writes all
// traces, concatenated, to VERIF_OUT/l2-<shard>.ndjson. VERIF_SHARD / VERIF_SHARDS split the cases.
func TestL2(t *testing.T) {
	in := os.Getenv("VERIF_CASES")
	if in == "" {
		t.Skip("VERIF_CASES not set")
	}
	out := os.Getenv("VERIF_OUT")
	_ = os.MkdirAll(out, 0o755)
	shard, shards := envInt("VERIF_SHARD", 0), envInt("VERIF_SHARDS", 1)
	stride, seed := envInt("VERIF_STRIDE", 1), envInt("VERIF_SEED", 1)
	fh, err := os.Open(in)
	if err != nil {
		t.Fatal(err)
	}
	defer fh.Close()
	w, err := os.Create(filepath.Join(out, fmt.Sprintf("l2-%02d.ndjson", shard)))
	if err != nil {
		t.Fatal(err)
	}
	defer w.Close()
	bw := bufio.NewWriterSize(w, 1<<20)
	defer bw.Flush()
	enc := json.NewEncoder(bw)
	sc := bufio.NewScanner(fh)
	sc.Buffer(make([]byte, 1<<20), 1<<24)
	k, done := 0, 0
	for sc.Scan() {
		ln := strings.TrimSpace(sc.Text())
		if !strings.HasPrefix(ln, `"CASE|`) {
			continue
		}
		k++
		if stride > 1 && (k+seed)%stride != 0 {
			continue
		}
		if (k/stride)%shards != shard {
			continue
		}
		var s string
		if err := json.Unmarshal([]byte(ln), &s); err != nil {
			t.Fatal(err)
		}
		var cs L2Case
		if err := json.Unmarshal([]byte(s[5:]), &cs); err != nil {
			t.Fatalf("case: %v: %s", err, s)
		}
		cs.ID = k
		var c *Cluster
		func() {
			defer func() {
				if p := recover(); p != nil {
					if c != nil {
						c.Tr.Emit("leak", "", M{"msg": fmt.Sprint(p)})
					}
				}
			}()
			synctest.Test(t, func(t *testing.T) {
				c = RunL2Case(t, &cs)
				c.Finish()
			})
		}()
		for _, l := range c.Tr.Lines() {
			if l["ev"] == "reset" {
				l["case"] = cs.ID
			}
			_ = enc.Encode(l)
		}
		done++
	}
	fmt.Printf("L2 cases=%d done=%d\n", k, done)
}
