package sim

import (
	"testing"
	"time"
)

// Families maps a scheduler family name to a driver. A driver builds a cluster,
// runs it and returns it (the caller calls Finish and writes the trace).
var Families = map[string]func(t *testing.T, seed int64, steps int) *Cluster{
	"happy": famHappy,
	"chaos": famChaos,
	"elect": famElect,
	"snap":  famSnap,
}

// famElect: election-heavy schedules: flapping partitions, delayed/duplicated votes, crashes between
// the stable-store writes, slow disks, leadership transfers; 3 or 5 servers.
func famElect(t *testing.T, seed int64, steps int) *Cluster {
	opt := DefaultOptions(seed)
	opt.Family = "elect"
	if seed%3 == 0 {
		opt.Servers = []string{"n1", "n2", "n3", "n4", "n5"}
		opt.Initial = map[string]string{"n1": "V", "n2": "V", "n3": "V", "n4": "V", "n5": "V"}
	}
	if seed%4 == 1 {
		opt.PreVoteOff = true
	}
	c := NewCluster(t, opt)
	c.Bootstrap()
	c.StartAll()
	w := Weights{Deliver: 30, Reply: 30, Drop: 6, LoseResp: 6, Dup: 6, Tick: 16, TickMax: 30 * time.Millisecond,
		Apply: 3, Partition: 5, Heal: 4, Crash: 1, CrashAtWrite: 3, FailWrite: 1, SlowWrite: 3, ReleaseWrite: 6,
		Restart: 4, MaxCrashes: 8, Transfer: 3}
	c.RandomRun(w, steps)
	c.converge(500 * time.Millisecond)
	return c
}

// famSnap: snapshots, compaction, InstallSnapshot, restarts.
func famSnap(t *testing.T, seed int64, steps int) *Cluster {
	opt := DefaultOptions(seed)
	opt.Family = "snap"
	opt.SnapThresh = uint64(2 + seed%4)
	opt.SnapIntv = 20 * time.Millisecond
	opt.Trailing = uint64(seed % 3)
	opt.MaxAppend = 1 + int(seed%3)
	opt.Mono = seed%5 == 0
	c := NewCluster(t, opt)
	c.Bootstrap()
	c.StartAll()
	w := Weights{Deliver: 40, Reply: 40, Drop: 3, LoseResp: 3, Dup: 2, Tick: 14, TickMax: 20 * time.Millisecond,
		Apply: 10, Barrier: 1, UserSnap: 2, Partition: 3, Heal: 2, Crash: 1, CrashAtWrite: 1, Restart: 3, MaxCrashes: 5,
		FsmGate: 1, FsmRelease: 3}
	c.RandomRun(w, steps)
	c.converge(600 * time.Millisecond)
	return c
}

// converge stops faults, restarts everybody and runs a healthy network for a while.
func (c *Cluster) converge(d time.Duration) {
	c.StopFaults()
	for _, n := range c.Nodes {
		if !n.Up && n.everStarted {
			c.Start(n.ID)
		}
	}
	c.Settle("restart")
	c.RunQuiet(d, 5*time.Millisecond)
	if l := c.Leader(); l != "" {
		c.Apply(l, 0)
		c.Settle("client")
		c.RunQuiet(100*time.Millisecond, 5*time.Millisecond)
	}
}

// famChaos: elections + replication under loss, delay, duplication, partitions, crashes.
func famChaos(t *testing.T, seed int64, steps int) *Cluster {
	opt := DefaultOptions(seed)
	opt.Family = "chaos"
	c := NewCluster(t, opt)
	c.Bootstrap()
	c.StartAll()
	w := Weights{Deliver: 40, Reply: 40, Drop: 4, LoseResp: 4, Dup: 3, Tick: 14, TickMax: 20 * time.Millisecond,
		Apply: 6, Barrier: 1, Partition: 2, Heal: 2, Crash: 1, CrashAtWrite: 1, Restart: 3, MaxCrashes: 4, Transfer: 1}
	c.RandomRun(w, steps)
	c.converge(500 * time.Millisecond)
	return c
}

// famHappy: bootstrap, elect, a few applies on a healthy network.
func famHappy(t *testing.T, seed int64, steps int) *Cluster {
	opt := DefaultOptions(seed)
	opt.Family = "happy"
	c := NewCluster(t, opt)
	c.Bootstrap()
	c.StartAll()
	l := c.WaitLeader(2 * time.Second)
	if l == "" {
		t.Fatalf("no leader")
	}
	for i := 0; i < 3; i++ {
		c.Apply(l, 0)
		c.Settle("client")
		c.RunQuiet(20*time.Millisecond, 5*time.Millisecond)
	}
	c.Barrier(l, 0)
	c.RunQuiet(50*time.Millisecond, 5*time.Millisecond)
	return c
}
