package sim

import (
	"testing"
	"time"

	"github.com/hashicorp/raft"
)

// Families maps a scheduler family name to a driver. A driver builds a cluster,
// runs it and returns it (the caller calls Finish and writes the trace).
var Families = map[string]func(t *testing.T, seed int64, steps int) *Cluster{
	"happy": famHappy,
	"chaos": famChaos,
	"elect": famElect,
	"snap":  famSnap,
	"member":    famMember,
	"client":    famClient,
	"verify":    famVerify,
	"restart":   famRestart,
	"lease":     famLease,
	"leasequiet": famLeaseQuiet,
	"prevote":   famPreVote,
	"lifecycle": famLifecycle,
	"notify":    famNotify,
	"restore":   famRestore,
	"figure8":   famFigure8,
	"snapmember": famSnapMember,
	"cfgtrunc":  famCfgTrunc,
	"snapcfgrace": famSnapCfgRace,
	"restoreinflight": famRestoreInflight,
	"prevoteterm": famPreVoteTerm,
	"dupis":       famDupIS,
	"leaseiso":    famLeaseIso,
	"staleprefix": famStalePrefix,
	"voterestart": famVoteRestart,
	"stalerepl":   famStaleRepl,
	"demoteelect": famDemoteElect,
	"barrierrace": famBarrierRace,
	"phases":      famPhases,
	"transferhang": famTransferHang,
	"notifyshort": famNotifyShort,
	"fastpathrace": famFastPathRace,
	"xferisolated": famXferIsolated,
	"stalledleader": famStalledLeader,
	"restorebacklog": famRestoreBacklog,
	"ctcrash":     famCTCrash,
	"apibound":    famAPIBound,
	"leaseadd":    famLeaseAdd,
	"verifywide":  famVerifyWide,
	"fastpathterm": famFastPathTerm,
	"fastpathup":  famFastPathUp,
	"mixedbatch":  famMixedBatch,
	"xfernonvoter": famXferNonVoter,
	"cfgtruncelect": famCfgTruncElect,
	"snapvote":    famSnapVote,
	"transferstuck": famTransferStuck, // not in any plan: kept as a scenario, the defect it was written for needs a rarer trigger (see DESIGN 7.16)
}

// famSnapMember: snapshots racing with membership changes and a slow FSM, then restarts from the snapshot.
func famSnapMember(t *testing.T, seed int64, steps int) *Cluster {
	opt := DefaultOptions(seed)
	opt.Family = "snapmember"
	opt.Servers = []string{"n1", "n2", "n3", "n4"}
	if seed%2 == 0 {
		opt.Initial = map[string]string{"n1": "V"}
	} else {
		opt.Initial = map[string]string{"n1": "V", "n2": "V", "n3": "V"}
	}
	opt.SnapThresh = uint64(2 + seed%3)
	opt.SnapIntv = 15 * time.Millisecond
	opt.Trailing = uint64(seed % 2)
	opt.CfgStoreFSM = seed%3 == 0
	c := NewCluster(t, opt)
	c.Bootstrap()
	c.StartAll()
	w := Weights{Deliver: 40, Reply: 40, Drop: 1, LoseResp: 1, Tick: 12, TickMax: 12 * time.Millisecond,
		Apply: 10, Member: 8, MaxMember: 20, UserSnap: 6, FsmGate: 5, FsmRelease: 8, Crash: 2, Restart: 6, MaxCrashes: 6, MaxDown: 1}
	c.RandomRun(w, steps)
	c.convergeNoExpect(500 * time.Millisecond)
	// restart everybody from disk: the configuration must survive
	for _, n := range c.Nodes {
		if n.Up {
			c.Crash(n.ID)
		}
	}
	for _, n := range c.Nodes {
		if n.everStarted {
			c.Start(n.ID)
		}
	}
	c.Settle("restart")
	c.RunQuiet(300*time.Millisecond, 5*time.Millisecond)
	return c
}

// famMember: membership changes racing with elections, crashes and partitions; universe of 5.
func famMember(t *testing.T, seed int64, steps int) *Cluster {
	opt := DefaultOptions(seed)
	opt.Family = "member"
	opt.Servers = []string{"n1", "n2", "n3", "n4", "n5"}
	switch seed % 3 {
	case 0:
		opt.Initial = map[string]string{"n1": "V"}
	case 1:
		opt.Initial = map[string]string{"n1": "V", "n2": "V", "n3": "V"}
	default:
		opt.Initial = map[string]string{"n1": "V", "n2": "V", "n3": "V", "n4": "N"}
	}
	opt.ShutdownOnRemove = seed%2 == 0
	c := NewCluster(t, opt)
	c.Bootstrap()
	c.StartAll()
	w := Weights{Deliver: 40, Reply: 40, Drop: 3, LoseResp: 3, Dup: 2, Tick: 14, TickMax: 20 * time.Millisecond,
		Apply: 5, Member: 6, MaxMember: 12, Partition: 2, Heal: 2, Crash: 1, CrashAtWrite: 1, Restart: 3, MaxCrashes: 3,
		Transfer: 1, Verify: 1}
	c.RandomRun(w, steps)
	c.convergeNoExpect(500 * time.Millisecond)
	return c
}

// convergeNoExpect: like converge but the final configuration may have removed or shut down servers,
// so convergence is observed, not demanded.
func (c *Cluster) convergeNoExpect(d time.Duration) {
	c.StopFaults()
	c.Settle("restart")
	c.RunQuiet(d, 5*time.Millisecond)
	c.Quiesce(false)
}

// famClient: many clients on every server while leadership moves; BatchApplyCh / BatchingFSM flavours.
func famClient(t *testing.T, seed int64, steps int) *Cluster {
	opt := DefaultOptions(seed)
	opt.Family = "client"
	opt.BatchFSM = seed%2 == 0
	opt.BatchApplyCh = seed%3 == 0
	opt.MaxAppend = 1 + int(seed%4)
	c := NewCluster(t, opt)
	c.Bootstrap()
	c.StartAll()
	w := Weights{Deliver: 36, Reply: 36, Drop: 3, LoseResp: 3, Dup: 1, Tick: 12, TickMax: 20 * time.Millisecond,
		Apply: 16, Barrier: 4, Partition: 2, Heal: 2, Crash: 1, Restart: 3, MaxCrashes: 3, Transfer: 2,
		FsmGate: 1, FsmRelease: 4, SlowWrite: 1, ReleaseWrite: 4}
	c.RandomRun(w, steps)
	c.converge(500 * time.Millisecond)
	return c
}

// famVerify: VerifyLeader with voters and non-voters under partitions that leave the leader any subset.
func famVerify(t *testing.T, seed int64, steps int) *Cluster {
	opt := DefaultOptions(seed)
	opt.Family = "verify"
	switch seed % 4 {
	case 0:
		opt.Servers = []string{"n1", "n2", "n3", "n4"}
		opt.Initial = map[string]string{"n1": "V", "n2": "V", "n3": "V", "n4": "N"}
	case 1:
		opt.Servers = []string{"n1", "n2", "n3", "n4", "n5"}
		opt.Initial = map[string]string{"n1": "V", "n2": "V", "n3": "V", "n4": "N", "n5": "N"}
	case 2:
		opt.Servers = []string{"n1", "n2", "n3"}
		opt.Initial = map[string]string{"n1": "V", "n2": "V", "n3": "N"}
	}
	c := NewCluster(t, opt)
	c.Bootstrap()
	c.StartAll()
	c.WaitLeader(time.Second)
	w := Weights{Deliver: 36, Reply: 30, Drop: 4, LoseResp: 4, Dup: 2, Tick: 10, TickMax: 15 * time.Millisecond,
		Apply: 3, Verify: 12, Member: 2, MaxMember: 4, Partition: 5, Split: 3, Heal: 3, Crash: 1, Restart: 3, MaxCrashes: 2}
	c.RandomRun(w, steps)
	c.converge(500 * time.Millisecond)
	return c
}

// famRestart: crash at every kind of gate, restart, rejoin; plain / monotonic / commit-tracking stores.
func famRestart(t *testing.T, seed int64, steps int) *Cluster {
	opt := DefaultOptions(seed)
	opt.Family = "restart"
	opt.Pipeline = seed%3 == 2 // AppendEntries pipelining (no transfers in this family)
	opt.SnapThresh = uint64(3 + seed%4)
	opt.SnapIntv = 25 * time.Millisecond
	opt.Trailing = uint64(seed % 4)
	opt.MaxAppend = 1 + int(seed%3)
	opt.Mono = seed%4 == 1
	opt.CommitTrack = seed%4 >= 2
	opt.CTEager = seed%8 >= 6
	c := NewCluster(t, opt)
	c.Bootstrap()
	c.StartAll()
	w := Weights{Deliver: 40, Reply: 40, Drop: 2, LoseResp: 2, Tick: 12, TickMax: 20 * time.Millisecond,
		Apply: 10, UserSnap: 2, Crash: 3, CrashAtWrite: 4, Shutdown: 1, Restart: 8, MaxCrashes: 12, MaxDown: 2, Partition: 1, Heal: 1}
	c.RandomRun(w, steps)
	c.converge(600 * time.Millisecond)
	return c
}

// famLease: default-ratio timing; partitions at scheduler-chosen instants; fine ticks so the
// step-down bound is evaluated with 1 ms resolution.
func famLease(t *testing.T, seed int64, steps int) *Cluster {
	opt := DefaultOptions(seed)
	opt.Family = "lease"
	opt.LeaseCheck = true
	switch seed % 3 {
	case 0: // default ratio: lease = heartbeat / 2
		opt.Heartbeat, opt.Election, opt.Lease = 100*time.Millisecond, 100*time.Millisecond, 50*time.Millisecond
	case 1:
		opt.Heartbeat, opt.Election, opt.Lease = 100*time.Millisecond, 150*time.Millisecond, 100*time.Millisecond
	default:
		opt.Heartbeat, opt.Election, opt.Lease = 80*time.Millisecond, 80*time.Millisecond, 30*time.Millisecond
	}
	if seed%2 == 0 {
		opt.Servers = []string{"n1", "n2", "n3", "n4", "n5"}
		opt.Initial = map[string]string{"n1": "V", "n2": "V", "n3": "V", "n4": "N", "n5": "N"}
	}
	c := NewCluster(t, opt)
	c.Bootstrap()
	c.StartAll()
	c.WaitLeader(2 * time.Second)
	w := Weights{Deliver: 40, Reply: 40, Drop: 2, LoseResp: 2, Tick: 30, TickMax: 3 * time.Millisecond,
		Apply: 2, Partition: 2, Split: 2, Heal: 2}
	c.RandomRun(w, steps)
	c.converge(1500 * time.Millisecond)
	return c
}

// famLeaseQuiet: a long fault-free run: one leader, one term, indefinitely.
func famLeaseQuiet(t *testing.T, seed int64, steps int) *Cluster {
	opt := DefaultOptions(seed)
	opt.Family = "leasequiet"
	opt.ExpectStable = true
	opt.Heartbeat, opt.Election, opt.Lease = 100*time.Millisecond, 100*time.Millisecond, 50*time.Millisecond
	opt.CommitTO = 20 * time.Millisecond
	if seed%2 == 0 {
		opt.Servers = []string{"n1", "n2", "n3", "n4", "n5"}
		opt.Initial = map[string]string{"n1": "V", "n2": "V", "n3": "V", "n4": "V", "n5": "N"}
	}
	c := NewCluster(t, opt)
	c.Bootstrap()
	c.StartAll()
	l := c.WaitLeaderStable()
	if l == "" {
		t.Fatalf("no leader")
	}
	c.Tr.Emit("faultsstopped", "", nil) // there never were any
	c.autoConsume = true
	for i := 0; i < steps/40; i++ {
		if i%5 == 0 {
			c.Apply(l, 0)
			c.Settle("client")
		}
		c.RunQuiet(time.Duration(100+c.Rng.Intn(400))*time.Millisecond, time.Duration(1+c.Rng.Intn(9))*time.Millisecond)
	}
	c.Quiesce(true)
	return c
}

// WaitLeaderStable elects with every message delivered at once so that the first candidate wins.
func (c *Cluster) WaitLeaderStable() string {
	return c.WaitLeader(3 * time.Second)
}

// famPreVote: isolate a minority for a long time, heal; terms must not inflate, the leader must survive.
func famPreVote(t *testing.T, seed int64, steps int) *Cluster {
	opt := DefaultOptions(seed)
	opt.Family = "prevote"
	if seed%3 == 1 {
		// mixed cluster: a majority of the servers run with PreVoteDisabled
		opt.PreVoteOffNodes = map[string]bool{"n1": true, "n2": true}
	}
	if seed%2 == 0 {
		opt.Servers = []string{"n1", "n2", "n3", "n4", "n5"}
		opt.Initial = map[string]string{"n1": "V", "n2": "V", "n3": "V", "n4": "V", "n5": "V"}
	}
	c := NewCluster(t, opt)
	c.Bootstrap()
	c.StartAll()
	l := c.WaitLeader(2 * time.Second)
	if l == "" {
		t.Fatalf("no leader")
	}
	c.Apply(l, 0)
	c.Settle("client")
	c.RunQuiet(50*time.Millisecond, 5*time.Millisecond)
	// isolate a minority that does not contain the leader
	var others []string
	for _, id := range opt.Servers {
		if id != l && !opt.PreVoteOffNodes[id] { // the property speaks about servers that run pre-vote
			others = append(others, id)
		}
	}
	if len(others) == 0 {
		c.Opt.ExpectStable = true
		c.RunQuiet(200*time.Millisecond, 5*time.Millisecond)
		c.Quiesce(false)
		return c
	}
	c.Rng.Shuffle(len(others), func(i, j int) { others[i], others[j] = others[j], others[i] })
	k := 1
	if len(opt.Servers) == 5 && seed%4 == 0 && len(others) >= 2 {
		k = 2
	}
	iso := others[:k]
	for _, a := range iso {
		for _, b := range opt.Servers {
			if a != b {
				c.Net.SetBlocked(a, b, true)
			}
		}
	}
	c.Tr.Emit("part", "", M{"op": "isolate", "a": iso[0], "blocked": c.blockedJSON()})
	// the majority keeps working; the minority times out again and again
	dur := time.Duration(1+c.Rng.Intn(40)) * opt.Election
	end := time.Now().Add(dur)
	for time.Now().Before(end) {
		c.DeliverAll(300)
		if c.Rng.Intn(6) == 0 {
			if ld := c.Leader(); ld != "" {
				c.Apply(ld, 0)
				c.Settle("client")
			}
		}
		c.Tick(time.Duration(1+c.Rng.Intn(15)) * time.Millisecond)
	}
	c.Net.HealAll()
	c.Tr.Emit("part", "", M{"op": "heal", "blocked": c.blockedJSON()})
	c.Tr.Emit("faultsstopped", "", nil)
	c.autoConsume = true
	c.RunQuiet(400*time.Millisecond, 5*time.Millisecond)
	c.runUntilConverged(12 * time.Second)
	if ld := c.Leader(); ld != "" {
		c.Apply(ld, 0)
		c.Settle("client")
		c.RunQuiet(100*time.Millisecond, 5*time.Millisecond)
	}
	c.Opt.ExpectStable = true
	c.Quiesce(true)
	return c
}

// famLifecycle: every kind of API call at scheduler-chosen points relative to role changes and Shutdown.
func famLifecycle(t *testing.T, seed int64, steps int) *Cluster {
	opt := DefaultOptions(seed)
	opt.Family = "lifecycle"
	opt.BatchApplyCh = seed%2 == 0
	opt.MaxAppend = 2 + int(seed%3)
	c := NewCluster(t, opt)
	c.Bootstrap()
	c.StartAll()
	w := Weights{Deliver: 30, Reply: 30, Drop: 3, LoseResp: 3, Tick: 12, TickMax: 20 * time.Millisecond,
		Apply: 12, Barrier: 4, Verify: 6, Member: 2, MaxMember: 4, Transfer: 2, UserSnap: 3,
		Shutdown: 3, Restart: 4, MaxCrashes: 6, MaxDown: 2, OpOnDown: 6, Partition: 2, Heal: 2,
		FsmGate: 2, FsmRelease: 4, SlowWrite: 2, ReleaseWrite: 4}
	c.RandomRun(w, steps)
	c.convergeNoExpect(300 * time.Millisecond)
	return c
}

// famNotify: many leadership changes with a slow or fast NotifyCh consumer.
func famNotify(t *testing.T, seed int64, steps int) *Cluster {
	opt := DefaultOptions(seed)
	opt.Family = "notify"
	opt.HBFast = seed%4 == 1
	if seed%3 == 0 {
		opt.NotifyBuf = 0
	} else {
		opt.NotifyBuf = 1 + int(seed%4)
	}
	c := NewCluster(t, opt)
	c.Bootstrap()
	c.StartAll()
	w := Weights{Deliver: 36, Reply: 36, Drop: 3, LoseResp: 3, Tick: 14, TickMax: 25 * time.Millisecond,
		Apply: 3, Partition: 6, Heal: 4, Transfer: 5, Consume: 10, Crash: 1, Restart: 3, MaxCrashes: 3}
	c.RandomRun(w, steps)
	c.converge(500 * time.Millisecond)
	return c
}

// famRestore: user Restore with snapshots below / at / above the last index, racing with applies,
// lagging or partitioned followers; both store flavours.
func famRestore(t *testing.T, seed int64, steps int) *Cluster {
	opt := DefaultOptions(seed)
	opt.Family = "restore"
	opt.BatchFSM = seed%2 == 1
	opt.Mono = seed%2 == 0
	opt.MaxAppend = 1 + int(seed%3)
	opt.Trailing = uint64(seed % 3)
	c := NewCluster(t, opt)
	c.Bootstrap()
	c.StartAll()
	w := Weights{Deliver: 40, Reply: 40, Drop: 2, LoseResp: 2, Tick: 12, TickMax: 20 * time.Millisecond,
		Apply: 10, UserRestore: 3, Member: 1, MaxMember: 2, Transfer: 1, Partition: 2, Heal: 2, Crash: 1, Restart: 3, MaxCrashes: 2,
		FsmGate: 1, FsmRelease: 3}
	c.RandomRun(w, steps)
	c.converge(800 * time.Millisecond)
	return c
}

// famElect: election-heavy schedules: flapping partitions, delayed/duplicated votes, crashes between
// the stable-store writes, slow disks, leadership transfers; 3 or 5 servers.
func famElect(t *testing.T, seed int64, steps int) *Cluster {
	opt := DefaultOptions(seed)
	opt.Family = "elect"
	opt.KeepMinorityDown = seed%2 == 0
	opt.HBFast = seed%5 == 2 // heartbeats handled on the transport's goroutine, concurrently with the run loop
	if seed%3 == 0 {
		opt.Servers = []string{"n1", "n2", "n3", "n4", "n5"}
		opt.Initial = map[string]string{"n1": "V", "n2": "V", "n3": "V", "n4": "V", "n5": "V"}
	}
	if seed%4 == 1 {
		opt.PreVoteOff = true
	}
	c := NewCluster(t, opt)
	c.Bootstrap()
	c.StartAll()
	w := Weights{Deliver: 30, Reply: 30, Drop: 6, LoseResp: 6, Dup: 6, Tick: 16, TickMax: 30 * time.Millisecond,
		Apply: 3, Partition: 5, Heal: 4, Crash: 1, CrashAtWrite: 3, FailWrite: 1, SlowWrite: 3, ReleaseWrite: 6,
		Restart: 4, MaxCrashes: 8, Transfer: 3}
	c.RandomRun(w, steps)
	c.converge(500 * time.Millisecond)
	return c
}

// famSnap: snapshots, compaction, InstallSnapshot, restarts.
func famSnap(t *testing.T, seed int64, steps int) *Cluster {
	opt := DefaultOptions(seed)
	opt.Family = "snap"
	opt.BatchFSM = seed%3 == 1 // the FSM implements BatchingFSM
	opt.Pipeline = seed%4 == 1
	opt.HBFast = seed%3 == 2
	opt.SnapThresh = uint64(2 + seed%4)
	opt.SnapIntv = 20 * time.Millisecond
	opt.Trailing = uint64(seed % 3)
	opt.MaxAppend = 1 + int(seed%3)
	opt.Mono = seed%5 == 0
	c := NewCluster(t, opt)
	c.Bootstrap()
	c.StartAll()
	w := Weights{Deliver: 40, Reply: 40, Drop: 3, LoseResp: 3, Dup: 2, Tick: 14, TickMax: 20 * time.Millisecond,
		Apply: 10, Barrier: 1, UserSnap: 2, Partition: 3, Heal: 2, Crash: 1, CrashAtWrite: 1, Restart: 3, MaxCrashes: 5,
		FsmGate: 1, FsmRelease: 3}
	c.RandomRun(w, steps)
	c.converge(600 * time.Millisecond)
	return c
}

// converge stops faults, restarts everybody and runs a healthy network for a while.
func (c *Cluster) converge(d time.Duration) {
	c.StopFaults()
	var downIDs []string
	for _, n := range c.Nodes {
		if !n.Up && n.everStarted {
			downIDs = append(downIDs, n.ID)
		}
	}
	// a majority of the voters must suffice: sometimes one crashed server stays down
	keep := ""
	if c.Opt.KeepMinorityDown && len(downIDs) > 0 && 2*(len(c.Opt.Initial)-1) > len(c.Opt.Initial) && len(c.Opt.Servers) == len(c.Opt.Initial) {
		keep = downIDs[c.Rng.Intn(len(downIDs))]
	}
	for _, id := range downIDs {
		if id != keep {
			c.Start(id)
		}
	}
	c.Settle("restart")
	c.RunQuiet(d, 5*time.Millisecond)
	// Replication to a server that was unreachable backs off up to 10ms*2^10 = 10.24s
	// (replication.go backoff, maxFailureScale 12), so the honest bound for catch-up is that
	// plus a few elections: keep a healthy network until converged, at most 12 s more.
	c.runUntilConverged(12 * time.Second)
	if l := c.Leader(); l != "" {
		c.Apply(l, 0)
		c.Settle("client")
		c.RunQuiet(100*time.Millisecond, 5*time.Millisecond)
		c.runUntilConverged(2 * time.Second)
	}
	c.Quiesce(true)
}

// converged: one leader, every running member of its configuration has applied its commit index.
func (c *Cluster) converged() bool {
	l := c.Leader()
	if l == "" {
		return false
	}
	nl := 0
	for _, n := range c.Nodes {
		if n.Up && n.Raft.State() == raft.Leader {
			nl++
		}
	}
	if nl != 1 {
		return false
	}
	ld := c.byID[l].Raft
	ci := ld.CommitIndex()
	if ld.AppliedIndex() < ci {
		return false
	}
	for _, s := range ld.VerifState().Latest.Servers {
		n := c.byID[string(s.ID)]
		if n == nil || !n.Up {
			continue
		}
		if n.Raft.AppliedIndex() < ci {
			return false
		}
	}
	return c.PendingOps() == 0 || true
}

func (c *Cluster) runUntilConverged(budget time.Duration) {
	end := time.Now().Add(budget)
	// a catch-up livelock (the same transfer repeated for ever) consumes no virtual time:
	// bound the number of network actions as well, so that it becomes an observation, not a hang
	actions := 0
	for time.Now().Before(end) && actions < 6000 {
		actions += c.DeliverAll(100)
		if c.converged() {
			return
		}
		c.Tick(10 * time.Millisecond)
	}
}

// famChaos: elections + replication under loss, delay, duplication, partitions, crashes.
func famChaos(t *testing.T, seed int64, steps int) *Cluster {
	opt := DefaultOptions(seed)
	opt.Family = "chaos"
	opt.KeepMinorityDown = seed%2 == 1
	opt.Pipeline = seed%4 == 2
	opt.HBFast = seed%5 == 3
	c := NewCluster(t, opt)
	c.Bootstrap()
	c.StartAll()
	w := Weights{Deliver: 40, Reply: 40, Drop: 4, LoseResp: 4, Dup: 3, Tick: 14, TickMax: 20 * time.Millisecond,
		Apply: 6, Barrier: 1, Partition: 2, Split: 1, Heal: 2, Crash: 1, CrashAtWrite: 1, Restart: 3, MaxCrashes: 4, Transfer: 1}
	if opt.Pipeline {
		// leadershipTransfer() polls the replication routine in a loop that, in pipeline mode, spins without
		// blocking until the outstanding responses arrive; in virtual time the bubble would never go idle
		w.Transfer = 0
	}
	c.RandomRun(w, steps)
	c.converge(500 * time.Millisecond)
	return c
}

// famHappy: bootstrap, elect, a few applies on a healthy network.
func famHappy(t *testing.T, seed int64, steps int) *Cluster {
	opt := DefaultOptions(seed)
	opt.Family = "happy"
	c := NewCluster(t, opt)
	c.Bootstrap()
	c.StartAll()
	l := c.WaitLeader(2 * time.Second)
	if l == "" {
		t.Fatalf("no leader")
	}
	for i := 0; i < 3; i++ {
		c.Apply(l, 0)
		c.Settle("client")
		c.RunQuiet(20*time.Millisecond, 5*time.Millisecond)
	}
	c.Barrier(l, 0)
	c.RunQuiet(50*time.Millisecond, 5*time.Millisecond)
	return c
}

// famDupIS: the snapshot family with late duplicates of InstallSnapshot requests re-delivered after the follower
// has progressed (explored here only: see the known finding on stale InstallSnapshot).
func famDupIS(t *testing.T, seed int64, steps int) *Cluster {
	opt := DefaultOptions(seed)
	opt.Family = "dupis"
	opt.SnapThresh = uint64(2 + seed%4)
	opt.SnapIntv = 20 * time.Millisecond
	opt.Trailing = uint64(seed % 3)
	opt.Mono = seed%2 == 0
	opt.MaxAppend = 1 + int(seed%3)
	c := NewCluster(t, opt)
	c.Net.DupSnapshots = true
	c.Bootstrap()
	c.StartAll()
	w := Weights{Deliver: 40, Reply: 40, Drop: 2, LoseResp: 2, Tick: 12, TickMax: 20 * time.Millisecond,
		Apply: 10, Barrier: 1, UserSnap: 2, Partition: 3, Heal: 2, Crash: 1, Restart: 3, MaxCrashes: 3, DupIS: 4}
	c.RandomRun(w, steps)
	c.converge(500 * time.Millisecond)
	return c
}
