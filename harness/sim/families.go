package sim

import (
	"testing"
	"time"
)

// Families maps a scheduler family name to a driver. A driver builds a cluster,
// runs it and returns it (the caller calls Finish and writes the trace).
var Families = map[string]func(t *testing.T, seed int64, steps int) *Cluster{
	"happy": famHappy,
}

// famHappy: bootstrap, elect, a few applies on a healthy network.
func famHappy(t *testing.T, seed int64, steps int) *Cluster {
	opt := DefaultOptions(seed)
	opt.Family = "happy"
	c := NewCluster(t, opt)
	c.Bootstrap()
	c.StartAll()
	l := c.WaitLeader(2 * time.Second)
	if l == "" {
		t.Fatalf("no leader")
	}
	for i := 0; i < 3; i++ {
		c.Apply(l, 0)
		c.Settle("client")
		c.RunQuiet(20*time.Millisecond, 5*time.Millisecond)
	}
	c.Barrier(l, 0)
	c.RunQuiet(50*time.Millisecond, 5*time.Millisecond)
	return c
}
