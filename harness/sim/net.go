package sim

import (
	"bytes"
	"errors"
	"fmt"
	"io"
	"sort"
	"sync"
	"time"

	"github.com/hashicorp/raft"
)

// RPC phases.
const (
	phReq     = "req"     // parked at the sender, not yet delivered
	phInHand  = "inhand"  // handed to the target, handler has not responded yet
	phHandled = "handled" // target responded, response not yet delivered to the caller
	phDone    = "done"
)

var (
	errDropped     = errors.New("sim: request dropped")
	errRespLost    = errors.New("sim: response lost")
	errUnreachable = errors.New("sim: connection refused")
	errClosed      = errors.New("sim: transport closed")
)

// Rpc is one in-flight RPC.
type Rpc struct {
	ID    int
	Kind  string // ae hb is rv pv tn
	Src   string
	Dst   string
	SrcInc int
	Req   any
	Resp  any       // caller's response pointer
	Data  io.Reader // InstallSnapshot body
	Phase string
	// result from the handler
	hResp any
	hErr  error
	done  chan error
	arrive int // arrival counter (pre-canonicalisation)
	Dup   bool
	clean bool // the target was idle when the request was handed over
	pipe  *simPipeline
	pfut  *simAppendFuture
}

// Net owns every RPC of the simulated cluster.
type Net struct {
	mu      sync.Mutex
	c       *Cluster
	pending []*Rpc // all not-done RPCs, canonical order
	fresh   []*Rpc // arrived during the current step, not yet numbered
	nextID  int
	arrive  int
	trans   map[string]*SimTransport // current incarnation per node
	blocked map[[2]string]bool       // directed pairs that cannot communicate
	old     []*Rpc                   // finished requests that may be duplicated
	DupSnapshots bool                // allow duplicates of InstallSnapshot requests (family dupis)
}

func newNet(c *Cluster) *Net {
	return &Net{c: c, trans: map[string]*SimTransport{}, blocked: map[[2]string]bool{}}
}

// SimTransport implements raft.Transport, raft.WithPreVote and raft.WithClose.
type SimTransport struct {
	net    *Net
	id     string
	inc    int
	ch     chan raft.RPC
	hbMu   sync.Mutex
	hb     func(raft.RPC)
	dead   chan struct{}
	deadMu sync.Mutex
	isDead bool
	nopre  bool // do not advertise pre-vote support (mixed-cluster tests)
}

func (n *Net) newTransport(id string, inc int) *SimTransport {
	t := &SimTransport{net: n, id: id, inc: inc, ch: make(chan raft.RPC, 4096), dead: make(chan struct{})}
	n.mu.Lock()
	n.trans[id] = t
	n.mu.Unlock()
	return t
}

func (t *SimTransport) kill() {
	t.deadMu.Lock()
	if !t.isDead {
		t.isDead = true
		close(t.dead)
	}
	t.deadMu.Unlock()
}

func (t *SimTransport) Consumer() <-chan raft.RPC     { return t.ch }
func (t *SimTransport) LocalAddr() raft.ServerAddress { return raft.ServerAddress(t.id) }
func (t *SimTransport) EncodePeer(id raft.ServerID, addr raft.ServerAddress) []byte {
	return []byte(addr)
}
func (t *SimTransport) DecodePeer(b []byte) raft.ServerAddress { return raft.ServerAddress(b) }
func (t *SimTransport) SetHeartbeatHandler(cb func(rpc raft.RPC)) {
	t.hbMu.Lock()
	t.hb = cb
	t.hbMu.Unlock()
}
func (t *SimTransport) Close() error { t.kill(); return nil }

func isHeartbeat(a *raft.AppendEntriesRequest) bool {
	return a.Term != 0 && a.PrevLogEntry == 0 && a.PrevLogTerm == 0 && len(a.Entries) == 0 && a.LeaderCommitIndex == 0
}

func (t *SimTransport) AppendEntries(id raft.ServerID, target raft.ServerAddress, args *raft.AppendEntriesRequest, resp *raft.AppendEntriesResponse) error {
	kind := "ae"
	if isHeartbeat(args) {
		kind = "hb"
	}
	// copy the request: the caller reuses the struct (heartbeat loop)
	cp := *args
	cp.Entries = append([]*raft.Log(nil), args.Entries...)
	return t.net.call(t, string(target), kind, &cp, resp, nil)
}
func (t *SimTransport) RequestVote(id raft.ServerID, target raft.ServerAddress, args *raft.RequestVoteRequest, resp *raft.RequestVoteResponse) error {
	cp := *args
	return t.net.call(t, string(target), "rv", &cp, resp, nil)
}
func (t *SimTransport) RequestPreVote(id raft.ServerID, target raft.ServerAddress, args *raft.RequestPreVoteRequest, resp *raft.RequestPreVoteResponse) error {
	cp := *args
	return t.net.call(t, string(target), "pv", &cp, resp, nil)
}
func (t *SimTransport) InstallSnapshot(id raft.ServerID, target raft.ServerAddress, args *raft.InstallSnapshotRequest, resp *raft.InstallSnapshotResponse, data io.Reader) error {
	cp := *args
	body, err := io.ReadAll(data)
	if err != nil {
		return err
	}
	return t.net.call(t, string(target), "is", &cp, resp, bytes.NewReader(body))
}
func (t *SimTransport) TimeoutNow(id raft.ServerID, target raft.ServerAddress, args *raft.TimeoutNowRequest, resp *raft.TimeoutNowResponse) error {
	cp := *args
	return t.net.call(t, string(target), "tn", &cp, resp, nil)
}

// AppendEntriesPipeline: enabled only when the cluster option says so.
func (t *SimTransport) AppendEntriesPipeline(id raft.ServerID, target raft.ServerAddress) (raft.AppendPipeline, error) {
	if !t.net.c.Opt.Pipeline {
		return nil, raft.ErrPipelineReplicationNotSupported
	}
	return newSimPipeline(t, string(target)), nil
}

// call parks the caller until the scheduler resolves the RPC.
func (n *Net) call(t *SimTransport, dst, kind string, req, resp any, data io.Reader) error {
	select {
	case <-t.dead:
		return errClosed
	default:
	}
	r := &Rpc{Kind: kind, Src: t.id, Dst: dst, SrcInc: t.inc, Req: req, Resp: resp, Data: data, Phase: phReq, done: make(chan error, 1)}
	n.mu.Lock()
	n.arrive++
	r.arrive = n.arrive
	n.fresh = append(n.fresh, r)
	n.mu.Unlock()
	select {
	case err := <-r.done:
		return err
	case <-t.dead:
		return errClosed
	}
}

// canonicalise numbers the RPCs that arrived during the last step in a
// schedule-independent order and emits their "send" events.
func (n *Net) canonicalise() {
	n.mu.Lock()
	fresh := n.fresh
	n.fresh = nil
	n.mu.Unlock()
	if len(fresh) == 0 {
		return
	}
	sort.SliceStable(fresh, func(i, j int) bool {
		a, b := fresh[i], fresh[j]
		if a.Src != b.Src {
			return a.Src < b.Src
		}
		if a.Dst != b.Dst {
			return a.Dst < b.Dst
		}
		if a.Kind != b.Kind {
			return a.Kind < b.Kind
		}
		return a.arrive < b.arrive
	})
	for _, r := range fresh {
		if r.Phase == phDone {
			continue // sent by an incarnation that has crashed meanwhile
		}
		n.mu.Lock()
		n.nextID++
		r.ID = n.nextID
		n.pending = append(n.pending, r)
		cur := n.trans[r.Src]
		n.mu.Unlock()
		if cur != nil && cur.inc == r.SrcInc {
			n.c.Tr.Emit("send", r.Src, M{"id": r.ID, "kind": r.Kind, "dst": r.Dst, "req": reqJSON(n.c, r.Kind, r.Req)})
		}
	}
}

// Pending returns the RPCs the scheduler can act on, canonical order.
func (n *Net) Pending() []*Rpc {
	n.mu.Lock()
	defer n.mu.Unlock()
	out := make([]*Rpc, 0, len(n.pending))
	for _, r := range n.pending {
		if (r.Phase == phReq || r.Phase == phHandled) && (r.pipe == nil || r.pipe.actionable(r)) {
			out = append(out, r)
		}
	}
	return out
}

func (n *Net) remove(r *Rpc) {
	for i, x := range n.pending {
		if x == r {
			n.pending = append(n.pending[:i], n.pending[i+1:]...)
			return
		}
	}
}

func (n *Net) reachable(a, b string) bool {
	return !n.blocked[[2]string{a, b}]
}

// finish completes the caller side of r.
func (n *Net) finish(r *Rpc, err error) {
	n.mu.Lock()
	r.Phase = phDone
	n.remove(r)
	if !r.Dup && len(n.old) < 64 {
		n.old = append(n.old, r)
	}
	n.mu.Unlock()
	if r.Dup {
		return
	}
	if r.pfut != nil {
		r.pipe.complete(r, err)
		return
	}
	r.done <- err
}

// Deliver hands the request to the target's consumer channel (or heartbeat
// fast path). Returns false if the target is unreachable (the RPC then fails).
func (n *Net) Deliver(r *Rpc) bool {
	n.mu.Lock()
	tgt := n.trans[r.Dst]
	ok := tgt != nil && n.reachable(r.Src, r.Dst)
	if ok {
		select {
		case <-tgt.dead:
			ok = false
		default:
		}
	}
	n.mu.Unlock()
	if !ok {
		n.c.Tr.Emit("fail", r.Src, M{"id": r.ID, "why": "unreachable", "kind": r.Kind, "dst": r.Dst})
		n.finish(r, errUnreachable)
		return false
	}
	respCh := make(chan raft.RPCResponse, 1)
	rpc := raft.RPC{Command: r.Req, Reader: r.Data, RespChan: respCh}
	tn := n.c.byID[r.Dst]
	n.mu.Lock()
	r.Phase = phInHand
	r.clean = tn != nil && tn.inc != nil && !tn.inc.Parked() && len(tgt.ch) == 0 && tn.FSM.Waiting() == 0
	n.mu.Unlock()
	n.c.Tr.Emit("deliver", r.Dst, M{"id": r.ID, "kind": r.Kind, "src": r.Src, "term": reqTerm(r.Req)})
	fast := false
	if r.Kind == "hb" && n.c.Opt.HBFast {
		tgt.hbMu.Lock()
		hb := tgt.hb
		tgt.hbMu.Unlock()
		if hb != nil {
			fast = true
			go hb(rpc)
		}
	}
	if !fast {
		select {
		case tgt.ch <- rpc:
		default:
			// consumer queue full: treat as connection failure
			n.mu.Lock()
			r.Phase = phReq
			n.mu.Unlock()
			n.c.Tr.Emit("fail", r.Src, M{"id": r.ID, "why": "queuefull", "kind": r.Kind, "dst": r.Dst})
			n.finish(r, errUnreachable)
			return false
		}
	}
	tgtInc := n.c.byID[r.Dst].inc
	go func() {
		select {
		case res := <-respCh:
			tgtInc.mu.Lock()
			deadInc := tgtInc.dead
			tgtInc.mu.Unlock()
			if deadInc {
				// the target crashed while handling (crash point inside the handler):
				// whatever the zombie incarnation answered never reaches anybody
				n.mu.Lock()
				r.hResp, r.hErr = nil, errRespLost
				r.Phase = phHandled
				n.mu.Unlock()
				return
			}
			n.mu.Lock()
			r.hResp, r.hErr = res.Response, res.Error
			r.Phase = phHandled
			n.mu.Unlock()
			n.c.onHandled(r, tgt)
		case <-tgt.dead:
			// target crashed while handling: the caller sees an error when the scheduler says so
			n.mu.Lock()
			r.hResp, r.hErr = nil, errRespLost
			r.Phase = phHandled
			n.mu.Unlock()
		}
	}()
	return true
}

// Reply delivers the handler's response to the caller.
func (n *Net) Reply(r *Rpc) {
	if r.hErr != nil {
		n.c.Tr.Emit("reply", r.Src, M{"id": r.ID, "kind": r.Kind, "err": r.hErr.Error(), "dst": r.Dst})
		n.finish(r, r.hErr)
		return
	}
	if !n.reachable(r.Dst, r.Src) {
		n.c.Tr.Emit("fail", r.Src, M{"id": r.ID, "why": "resplost", "kind": r.Kind, "dst": r.Dst})
		n.finish(r, errRespLost)
		return
	}
	if !r.Dup {
		copyResp(r.Resp, r.hResp)
	}
	n.c.Tr.Emit("reply", r.Src, M{"id": r.ID, "kind": r.Kind, "dst": r.Dst, "resp": respJSON(r.Kind, r.hResp)})
	n.finish(r, nil)
}

// FailBefore drops the request before the target sees it.
func (n *Net) FailBefore(r *Rpc) {
	n.c.Tr.Emit("fail", r.Src, M{"id": r.ID, "why": "dropped", "kind": r.Kind, "dst": r.Dst})
	n.finish(r, errDropped)
}

// FailAfter loses the response: the target handled the request, the caller gets an error.
func (n *Net) FailAfter(r *Rpc) {
	n.c.Tr.Emit("fail", r.Src, M{"id": r.ID, "why": "resplost", "kind": r.Kind, "dst": r.Dst})
	n.finish(r, errRespLost)
}

// Duplicate re-injects an old request (network duplication / late delivery).
func (n *Net) Duplicate(idx int) *Rpc {
	n.mu.Lock()
	if len(n.old) == 0 {
		n.mu.Unlock()
		return nil
	}
	o := n.old[idx%len(n.old)]
	if o.Kind == "is" && !n.DupSnapshots {
		// a re-delivered InstallSnapshot is explored in the family "dupis" only (known finding)
		n.mu.Unlock()
		return nil
	}
	n.nextID++
	d := &Rpc{ID: n.nextID, Kind: o.Kind, Src: o.Src, Dst: o.Dst, SrcInc: o.SrcInc, Req: o.Req, Phase: phReq, Dup: true, done: make(chan error, 1)}
	if br, ok := o.Data.(*bytes.Reader); ok {
		_, _ = br.Seek(0, io.SeekStart)
		b, _ := io.ReadAll(br)
		_, _ = br.Seek(0, io.SeekStart)
		d.Data = bytes.NewReader(b)
	}
	n.pending = append(n.pending, d)
	n.mu.Unlock()
	n.c.Tr.Emit("dup", o.Src, M{"id": d.ID, "of": o.ID, "kind": d.Kind, "dst": d.Dst, "req": reqJSON(n.c, d.Kind, d.Req)})
	return d
}

func reqTerm(req any) uint64 {
	switch r := req.(type) {
	case *raft.AppendEntriesRequest:
		return r.Term
	case *raft.RequestVoteRequest:
		return r.Term
	case *raft.RequestPreVoteRequest:
		return r.Term
	case *raft.InstallSnapshotRequest:
		return r.Term
	}
	return 0
}

// DuplicateKind re-injects an old request of the given kind.
func (n *Net) DuplicateKind(kind string, idx int) *Rpc {
	n.mu.Lock()
	var c []int
	for i, o := range n.old {
		if o.Kind == kind {
			c = append(c, i)
		}
	}
	n.mu.Unlock()
	if len(c) == 0 {
		return nil
	}
	return n.Duplicate(c[idx%len(c)])
}

func copyResp(dst, src any) {
	switch d := dst.(type) {
	case *raft.AppendEntriesResponse:
		*d = *(src.(*raft.AppendEntriesResponse))
	case *raft.RequestVoteResponse:
		*d = *(src.(*raft.RequestVoteResponse))
	case *raft.RequestPreVoteResponse:
		*d = *(src.(*raft.RequestPreVoteResponse))
	case *raft.InstallSnapshotResponse:
		*d = *(src.(*raft.InstallSnapshotResponse))
	case *raft.TimeoutNowResponse:
		*d = *(src.(*raft.TimeoutNowResponse))
	default:
		panic(fmt.Sprintf("copyResp: %T", dst))
	}
}

// SetBlocked (un)blocks both directions between a and b.
func (n *Net) SetBlocked(a, b string, blocked bool) {
	n.mu.Lock()
	if blocked {
		n.blocked[[2]string{a, b}] = true
		n.blocked[[2]string{b, a}] = true
	} else {
		delete(n.blocked, [2]string{a, b})
		delete(n.blocked, [2]string{b, a})
	}
	n.mu.Unlock()
}

func (n *Net) HealAll() {
	n.mu.Lock()
	n.blocked = map[[2]string]bool{}
	n.mu.Unlock()
}

// ---------------------------------------------------------------- pipeline

type simAppendFuture struct {
	args *raft.AppendEntriesRequest
	resp *raft.AppendEntriesResponse
	err  error
	done chan struct{}
}

func (f *simAppendFuture) Error() error                         { <-f.done; return f.err }
func (f *simAppendFuture) Start() time.Time                     { return time.Time{} }
func (f *simAppendFuture) Request() *raft.AppendEntriesRequest  { return f.args }
func (f *simAppendFuture) Response() *raft.AppendEntriesResponse { return f.resp }

type simPipeline struct {
	t      *SimTransport
	dst    string
	mu     sync.Mutex
	queue  []*Rpc // in send order
	doneCh chan raft.AppendFuture
	closed chan struct{}
	isClosed bool
	failed bool
}

func newSimPipeline(t *SimTransport, dst string) *simPipeline {
	return &simPipeline{t: t, dst: dst, doneCh: make(chan raft.AppendFuture, 128), closed: make(chan struct{})}
}

func (p *simPipeline) AppendEntries(args *raft.AppendEntriesRequest, resp *raft.AppendEntriesResponse) (raft.AppendFuture, error) {
	p.mu.Lock()
	if p.isClosed || p.failed {
		p.mu.Unlock()
		return nil, raft.ErrPipelineShutdown
	}
	p.mu.Unlock()
	select {
	case <-p.t.dead:
		return nil, errClosed
	default:
	}
	cp := *args
	cp.Entries = append([]*raft.Log(nil), args.Entries...)
	f := &simAppendFuture{args: &cp, resp: resp, done: make(chan struct{})}
	kind := "ae"
	if isHeartbeat(&cp) {
		kind = "hb"
	}
	r := &Rpc{Kind: kind, Src: p.t.id, Dst: p.dst, SrcInc: p.t.inc, Req: &cp, Resp: resp, Phase: phReq, done: make(chan error, 1), pipe: p, pfut: f}
	n := p.t.net
	n.mu.Lock()
	n.arrive++
	r.arrive = n.arrive
	n.fresh = append(n.fresh, r)
	n.mu.Unlock()
	p.mu.Lock()
	p.queue = append(p.queue, r)
	p.mu.Unlock()
	return f, nil
}

func (p *simPipeline) Consumer() <-chan raft.AppendFuture { return p.doneCh }

func (p *simPipeline) Close() error {
	p.mu.Lock()
	if !p.isClosed {
		p.isClosed = true
		close(p.closed)
	}
	p.mu.Unlock()
	return nil
}

// actionable: a connection delivers requests in send order and responses in
// send order. A request may be delivered once every earlier one has been; a
// response may be returned only for the oldest unfinished request.
func (p *simPipeline) actionable(r *Rpc) bool {
	p.mu.Lock()
	defer p.mu.Unlock()
	for i, x := range p.queue {
		if x == r {
			if r.Phase == phHandled {
				return i == 0
			}
			return true
		}
		if r.Phase == phReq && x.Phase == phReq {
			return false
		}
	}
	return false
}

func (p *simPipeline) complete(r *Rpc, err error) {
	p.mu.Lock()
	for i, x := range p.queue {
		if x == r {
			p.queue = append(p.queue[:i], p.queue[i+1:]...)
			break
		}
	}
	first := err != nil && !p.failed
	after := err == nil && p.failed
	if err != nil {
		p.failed = true
	}
	closed := p.isClosed
	p.mu.Unlock()
	f := r.pfut
	f.err = err
	close(f.done)
	if closed || after || (err != nil && !first) {
		// a failed connection delivers nothing further
		return
	}
	// like netPipeline / inmemPipeline, the exchange that failed is handed to the consumer too, with its error set and
	// the caller's response object untouched
	select {
	case p.doneCh <- f:
	case <-p.closed:
	}
}
