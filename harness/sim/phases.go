package sim

import (
	"fmt"
	"testing"
	"time"

	"github.com/hashicorp/raft"
)

// famPhases composes MACRO steps instead of single scheduler actions: each phase installs a fault (isolation, a
// cut pair, message kinds of one server held back, a crash, a slow FSM), issues client operations and then lets
// the cluster run under that fault for tens to hundreds of milliseconds, so that elections, step-downs,
// back-offs, snapshots and catch-up actually complete inside a fault before the next one is applied. The
// micro-step families explore interleavings; this one explores histories.
func famPhases(t *testing.T, seed int64, steps int) *Cluster {
	opt := DefaultOptions(seed)
	opt.Family = "phases"
	switch seed % 4 {
	case 1:
		opt.Servers = []string{"n1", "n2", "n3", "n4"}
		opt.Initial = map[string]string{"n1": "V", "n2": "V", "n3": "V", "n4": "N"}
	case 2:
		opt.Servers = []string{"n1", "n2", "n3", "n4", "n5"}
		opt.Initial = map[string]string{"n1": "V", "n2": "V", "n3": "V", "n4": "V", "n5": "V"}
	case 3:
		opt.Servers = []string{"n1", "n2", "n3", "n4"}
		opt.Initial = map[string]string{"n1": "V", "n2": "V", "n3": "V", "n4": "V"}
	}
	opt.MaxAppend = 1 + int(seed%3)
	opt.Trailing = uint64((seed / 2) % 4)
	if seed%3 != 0 {
		opt.SnapThresh = uint64(3 + seed%5)
		opt.SnapIntv = 25 * time.Millisecond
	}
	opt.Mono = seed%7 == 3
	opt.CommitTrack = seed%7 == 5
	opt.BatchApplyCh = seed%2 == 1
	opt.KeepMinorityDown = seed%5 == 4
	opt.HBFast = seed%3 == 1
	c := NewCluster(t, opt)
	c.Bootstrap()
	c.StartAll()
	rng := c.Rng
	if c.WaitLeader(2*time.Second) == "" {
		return c
	}
	type hold struct {
		src, dst string // dst "" = anybody
		kinds    map[string]bool
		left     int // phases it stays in force
	}
	var holds []*hold
	allow := func(r *Rpc) bool {
		for _, h := range holds {
			if r.Src != h.src || (h.dst != "" && r.Dst != h.dst) {
				continue
			}
			k := r.Kind
			if k == "ae" {
				if ae, ok := r.Req.(*raft.AppendEntriesRequest); ok && len(ae.Entries) == 0 {
					k = "ae0"
				}
			}
			if h.kinds[k] {
				return false
			}
		}
		return true
	}
	pickUp := func() string {
		var up []string
		for _, n := range c.Nodes {
			if n.Up {
				up = append(up, n.ID)
			}
		}
		if len(up) == 0 {
			return ""
		}
		return up[rng.Intn(len(up))]
	}
	leaderOr := func() string {
		if l := c.Leader(); l != "" && rng.Intn(5) != 0 {
			return l
		}
		return pickUp()
	}
	down := 0
	restores := 0
	phases := 8 + rng.Intn(8)
	for p := 0; p < phases; p++ {
		switch op := rng.Intn(26); {
		case op >= 20 && op < 22: // motif: the leader is cut off with writes nobody sees; the others move on
			if l := c.Leader(); l != "" {
				c.isolate(l)
				for i := 1 + rng.Intn(3); i > 0; i-- {
					c.Apply(l, 0)
					c.Settle("client")
				}
				c.dropPendingFrom(l)
				c.Drive(400*time.Millisecond, allow, func() bool { x := c.Leader(); return x != "" && x != l })
				if x := c.Leader(); x != "" && x != l {
					for i := 1 + rng.Intn(3); i > 0; i-- {
						c.Apply(x, 0)
						c.Settle("client")
					}
				}
			}
		case op == 22: // motif: a follower falls behind while the others snapshot and compact
			if l := c.Leader(); l != "" {
				f := pickUp()
				if f != "" && f != l {
					c.isolate(f)
					for i := 3 + rng.Intn(5); i > 0; i-- {
						c.Apply(l, 0)
						c.Settle("client")
						c.Drive(15*time.Millisecond, allow, nil)
					}
					for _, n := range c.Nodes {
						if n.Up && n.ID != f {
							c.UserSnapshot(n.ID)
							c.Settle("client")
						}
					}
				}
			}
		case op == 23: // motif: a server restarts at once (same term, nothing learnt in between)
			if s := pickUp(); s != "" {
				c.Crash(s)
				c.Settle("crash")
				c.Start(s)
				c.Settle("restart")
			}
		case op == 24: // motif: backlog in the leader's FSM while a membership change commits and a snapshot is asked for
			if l := c.Leader(); l != "" {
				c.byID[l].FSM.SetGated(true)
				for i := 1 + rng.Intn(3); i > 0; i-- {
					c.Apply(l, 0)
					c.Settle("client")
				}
				c.Drive(40*time.Millisecond, allow, nil)
				cmds := []string{"addnonvoter", "demote", "addvoter", "remove"}
				c.Member(l, cmds[rng.Intn(len(cmds))], c.Opt.Servers[rng.Intn(len(c.Opt.Servers))], 0, 0)
				c.Settle("client")
				c.UserSnapshot(l)
				c.Settle("client")
				c.Drive(150*time.Millisecond, allow, nil)
				for i := 0; i < 6; i++ {
					c.byID[l].FSM.Release(1)
					c.Settle("fsm")
					c.Drive(15*time.Millisecond, allow, nil)
				}
			}
		case op == 25: // motif: leadership handed to a server that is cut off (the transfer fails)
			if l := c.Leader(); l != "" {
				f := pickUp()
				if f != "" && f != l {
					c.isolate(f)
					c.Transfer(l, f)
					c.Settle("client")
				}
			}
		case op < 3: // isolate one server, preferably the leader
			s := leaderOr()
			if s != "" {
				c.isolate(s)
			}
		case op < 5: // cut one pair
			a, b := pickUp(), pickUp()
			if a != "" && a != b {
				c.Net.SetBlocked(a, b, true)
				c.Tr.Emit("part", "", M{"op": "cut", "a": a, "b": b, "blocked": c.blockedJSON()})
			}
		case op < 8:
			c.healAll()
		case op < 11: // hold back some kinds of messages of one server
			kindSets := [][]string{{"ae"}, {"ae", "ae0", "hb"}, {"rv", "pv"}, {"is"}, {"hb"}, {"ae", "is"}}
			ks := map[string]bool{}
			for _, k := range kindSets[rng.Intn(len(kindSets))] {
				ks[k] = true
			}
			h := &hold{src: leaderOr(), kinds: ks, left: 1 + rng.Intn(2)}
			if rng.Intn(2) == 0 {
				h.dst = pickUp()
			}
			if h.src != "" {
				holds = append(holds, h)
			}
		case op < 12: // crash
			if s := leaderOr(); s != "" && down < 2 {
				c.Crash(s)
				c.Settle("crash")
				down++
			}
		case op < 14: // restart everything that is down
			for _, n := range c.Nodes {
				if !n.Up && n.everStarted {
					c.Start(n.ID)
					c.Settle("restart")
				}
			}
			down = 0
		case op < 15: // membership change
			if l := c.Leader(); l != "" {
				cmds := []string{"addvoter", "addnonvoter", "demote", "remove"}
				tgt := c.Opt.Servers[rng.Intn(len(c.Opt.Servers))]
				cmd := cmds[rng.Intn(len(cmds))]
				c.Member(l, cmd, tgt, 0, 0)
				if (cmd == "addvoter" || cmd == "addnonvoter") && !c.byID[tgt].Up && !c.byID[tgt].everStarted {
					c.Start(tgt)
				}
				c.Settle("client")
			}
		case op < 16: // snapshot somewhere
			if s := pickUp(); s != "" {
				c.UserSnapshot(s)
				c.Settle("client")
			}
		case op < 17: // slow FSM somewhere for this phase
			if s := pickUp(); s != "" {
				c.byID[s].FSM.SetGated(true)
			}
		case op < 18: // leadership transfer
			if l := c.Leader(); l != "" {
				tgt := ""
				if rng.Intn(2) == 0 {
					tgt = pickUp()
				}
				c.Transfer(l, tgt)
				c.Settle("client")
			}
		case op < 19: // verify / barrier
			if l := leaderOr(); l != "" {
				if rng.Intn(2) == 0 {
					c.Verify(l)
				} else {
					c.Barrier(l, 0)
				}
				c.Settle("client")
			}
		default: // user restore (at most once)
			if l := c.Leader(); l != "" && restores == 0 && seed%3 == 2 {
				restores++
				li := c.byID[l].Raft.LastIndex()
				idx := []uint64{1, li, li + 3}[rng.Intn(3)]
				c.UserRestore(l, []string{fmt.Sprintf("u%d.1", seed), fmt.Sprintf("u%d.2", seed)}, idx, 1, 0)
				c.Settle("client")
			}
		}
		// client traffic under the fault
		for i := rng.Intn(4); i > 0; i-- {
			if s := leaderOr(); s != "" {
				c.Apply(s, time.Duration(rng.Intn(2))*20*time.Millisecond)
				c.Settle("client")
			}
		}
		c.Drive(time.Duration(20+rng.Intn(380))*time.Millisecond, allow, nil)
		// release slow FSMs and expire holds
		for _, n := range c.Nodes {
			if n.Up && n.FSM != nil && rng.Intn(2) == 0 {
				n.FSM.SetGated(false)
			}
		}
		c.Settle("fsm")
		var keep []*hold
		for _, h := range holds {
			if h.left--; h.left > 0 {
				keep = append(keep, h)
			}
		}
		holds = keep
	}
	for _, n := range c.Nodes {
		if n.Up && n.FSM != nil {
			n.FSM.SetGated(false)
		}
	}
	c.Settle("fsm")
	c.healAll()
	c.converge(700 * time.Millisecond)
	return c
}
