package sim

import (
	"bytes"
	"errors"
	"fmt"
	"io"
	"sort"
	"sync"

	"github.com/hashicorp/raft"
	"runtime"
	"strings"
)

// Disk is the durable image of one server. It survives crashes; everything
// else about a server is volatile.
type Disk struct {
	kvInt  map[string]uint64
	kv     map[string][]byte
	logs   map[uint64]*raft.Log
	commit uint64 // durable staged commit index (commit-tracking flavour)
	snaps  []*snapRec
	logVer int // bumped on every log mutation
	snapVer int
}

type snapRec struct {
	ID       string
	Index    uint64
	Term     uint64
	Cfg      raft.Configuration
	CfgIndex uint64
	Data     []byte
	Seq      int // creation order
}

func newDisk() *Disk {
	return &Disk{kvInt: map[string]uint64{}, kv: map[string][]byte{}, logs: map[uint64]*raft.Log{}}
}

func (d *Disk) clone() *Disk {
	c := newDisk()
	for k, v := range d.kvInt {
		c.kvInt[k] = v
	}
	for k, v := range d.kv {
		c.kv[k] = append([]byte(nil), v...)
	}
	for k, v := range d.logs {
		l := *v
		c.logs[k] = &l
	}
	c.commit = d.commit
	c.snaps = append([]*snapRec(nil), d.snaps...)
	c.logVer, c.snapVer = d.logVer, d.snapVer
	return c
}

func (d *Disk) firstLast() (uint64, uint64) {
	var lo, hi uint64
	for k := range d.logs {
		if lo == 0 || k < lo {
			lo = k
		}
		if k > hi {
			hi = k
		}
	}
	return lo, hi
}

// Incarnation is one run of a server between (re)start and crash/shutdown.
type Incarnation struct {
	node *Node
	n    int
	mu   sync.Mutex // protects disk pointer and content
	disk *Disk
	dead bool // crashed: effects go to a detached disk and are not traced
	graceful bool // stopped through Shutdown(), not crashed

	// fault plan
	crashAt int // crash immediately before the k-th mutating store call from now (0 = off)
	failAt  int // the k-th failable store call from now returns an error (0 = off)
	failLogAt int // the k-th StoreLogs call from now returns an error (0 = off; directed families only)
	crashedAtGate bool
	parkAt  int           // park the caller at the k-th mutating store call from now (slow disk)
	parkCh  chan struct{} // non-nil while a caller is parked
	parkOp  string
	staged  uint64 // volatile staged commit index
	starting bool  // inside NewRaft
	failedSince bool // a store error was injected since the last projection of the node
}

var errInjected = errors.New("sim: injected store error")

// mutGate is called at the start of every mutating store call, with inc.mu held.
// It returns (emit, err): emit=false when the incarnation is dead.
func (inc *Incarnation) mutGate(op string, failable bool) (bool, error) {
	if inc.dead {
		return false, nil
	}
	if inc.crashAt > 0 {
		inc.crashAt--
		if inc.crashAt == 0 {
			// crash here: the durable image is what is on disk now, before this write
			inc.detachLocked()
			inc.crashedAtGate = true
			return false, nil
		}
	}
	if inc.parkAt > 0 {
		inc.parkAt--
		if inc.parkAt == 0 {
			ch := make(chan struct{})
			inc.parkCh, inc.parkOp = ch, op
			inc.mu.Unlock()
			<-ch
			inc.mu.Lock()
			if inc.dead {
				return false, nil
			}
		}
	}
	if op == "storelogs" && inc.failLogAt > 0 {
		inc.failLogAt--
		if inc.failLogAt == 0 {
			inc.node.c.Tr.Emit("store", inc.node.ID, M{"op": op, "err": "injected"})
			inc.failedSince = true
			return true, errInjected
		}
	}
	if failable && inc.failAt > 0 {
		inc.failAt--
		if inc.failAt == 0 {
			inc.node.c.Tr.Emit("store", inc.node.ID, M{"op": op, "err": "injected"})
			inc.failedSince = true
			return true, errInjected
		}
	}
	return true, nil
}

// detachLocked: the node keeps the real disk, this incarnation continues on a copy.
func (inc *Incarnation) detachLocked() {
	if inc.dead {
		return
	}
	inc.dead = true
	inc.disk = inc.disk.clone()
}

// Unpark releases a caller parked at a slow store write. Returns whether one was parked.
func (inc *Incarnation) Unpark() bool {
	inc.mu.Lock()
	ch := inc.parkCh
	inc.parkCh = nil
	inc.parkAt = 0
	inc.mu.Unlock()
	if ch != nil {
		close(ch)
		return true
	}
	return false
}

func (inc *Incarnation) Parked() bool {
	inc.mu.Lock()
	defer inc.mu.Unlock()
	return inc.parkCh != nil
}

func (inc *Incarnation) detach() {
	inc.mu.Lock()
	inc.detachLocked()
	inc.mu.Unlock()
}

// ---------------------------------------------------------------- StableStore

type SimStable struct{ inc *Incarnation }

func (s *SimStable) Set(key []byte, val []byte) error {
	inc := s.inc
	inc.mu.Lock()
	defer inc.mu.Unlock()
	emit, err := inc.mutGate("stableset:"+string(key), string(key) != "CurrentTerm")
	if err != nil {
		return err
	}
	inc.disk.kv[string(key)] = append([]byte(nil), val...)
	if emit {
		inc.node.c.Tr.Emit("store", inc.node.ID, M{"op": "stableset", "key": string(key), "sval": string(val)})
	}
	return nil
}

func (s *SimStable) Get(key []byte) ([]byte, error) {
	inc := s.inc
	inc.mu.Lock()
	defer inc.mu.Unlock()
	v, ok := inc.disk.kv[string(key)]
	if !ok || v == nil {
		return nil, errors.New("not found")
	}
	return append([]byte(nil), v...), nil
}

func (s *SimStable) SetUint64(key []byte, val uint64) error {
	inc := s.inc
	inc.mu.Lock()
	defer inc.mu.Unlock()
	emit, err := inc.mutGate("stableset:"+string(key), string(key) != "CurrentTerm")
	if err != nil {
		return err
	}
	inc.disk.kvInt[string(key)] = val
	if emit {
		inc.node.c.Tr.Emit("store", inc.node.ID, M{"op": "stableset", "key": string(key), "ival": val})
	}
	return nil
}

func (s *SimStable) GetUint64(key []byte) (uint64, error) {
	inc := s.inc
	inc.mu.Lock()
	defer inc.mu.Unlock()
	v, ok := inc.disk.kvInt[string(key)]
	if !ok {
		return 0, errors.New("not found")
	}
	return v, nil
}

// ---------------------------------------------------------------- LogStore

// SimLog is a gap-capable log store (first/last are computed from the keys, as a
// B-tree backed store does).
type SimLog struct {
	inc  *Incarnation
	mono bool
}

func (s *SimLog) FirstIndex() (uint64, error) {
	s.inc.mu.Lock()
	defer s.inc.mu.Unlock()
	lo, _ := s.inc.disk.firstLast()
	return lo, nil
}

func (s *SimLog) LastIndex() (uint64, error) {
	s.inc.mu.Lock()
	defer s.inc.mu.Unlock()
	_, hi := s.inc.disk.firstLast()
	return hi, nil
}

func (s *SimLog) GetLog(index uint64, log *raft.Log) error {
	s.inc.mu.Lock()
	defer s.inc.mu.Unlock()
	l, ok := s.inc.disk.logs[index]
	if !ok {
		return raft.ErrLogNotFound
	}
	*log = *l
	return nil
}

func (s *SimLog) StoreLog(log *raft.Log) error { return s.StoreLogs([]*raft.Log{log}) }

func (s *SimLog) StoreLogs(logs []*raft.Log) error {
	inc := s.inc
	inc.mu.Lock()
	defer inc.mu.Unlock()
	emit, err := inc.mutGate("storelogs", false)
	if err != nil {
		return err
	}
	if s.mono && len(logs) > 0 {
		_, hi := inc.disk.firstLast()
		if hi != 0 && logs[0].Index != hi+1 {
			if emit {
				inc.node.c.Tr.Emit("store", inc.node.ID, M{"op": "storelogs", "err": "nonmonotonic", "first": logs[0].Index, "last": hi})
			}
			return fmt.Errorf("sim: non-monotonic append %d after %d", logs[0].Index, hi)
		}
	}
	for _, l := range logs {
		cp := *l
		inc.disk.logs[l.Index] = &cp
	}
	inc.disk.logVer++
	inc.disk.commit = inc.staged
	if emit && len(logs) > 0 {
		es := []any{}
		for _, l := range logs {
			es = append(es, append([]any{l.Index}, inc.node.c.entryJSON(l)...))
		}
		inc.node.c.Tr.Emit("store", inc.node.ID, M{"op": "storelogs", "first": logs[0].Index, "last": logs[len(logs)-1].Index,
			"commit": inc.disk.commit, "entries": es})
	}
	return nil
}

func (s *SimLog) DeleteRange(min, max uint64) error {
	inc := s.inc
	inc.mu.Lock()
	defer inc.mu.Unlock()
	emit, err := inc.mutGate("delrange", false)
	if err != nil {
		return err
	}
	lo, hi := inc.disk.firstLast()
	for j := min; j <= max; j++ {
		delete(inc.disk.logs, j)
	}
	inc.disk.logVer++
	if emit {
		inc.node.c.Tr.Emit("store", inc.node.ID, M{"op": "delrange", "min": min, "max": max, "first": lo, "last": hi, "by": deleteCaller()})
	}
	return nil
}

// SimLogMono additionally advertises (and enforces) monotonic appends.
type SimLogMono struct{ SimLog }

func (s *SimLogMono) IsMonotonic() bool { return true }

// SimLogCT is a commit-tracking store: the staged index becomes durable with the next StoreLogs.
type SimLogCT struct{ SimLog }

func (s *SimLogCT) StageCommitIndex(idx uint64) error {
	s.inc.mu.Lock()
	defer s.inc.mu.Unlock()
	if s.inc.node.c.Opt.CTEager {
		// the repository's own InmemCommitTrackingStore persists a staged index at once (not atomically with the
		// next StoreLogs, as the interface asks): this flavour does the same, as a store write of its own
		emit, err := s.inc.mutGate("stagecommit", false)
		if err != nil {
			return err
		}
		if emit {
			s.inc.disk.commit = idx
			s.inc.node.c.Tr.Emit("store", s.inc.node.ID, M{"op": "stagecommit", "commit": idx})
		}
		return nil
	}
	s.inc.staged = idx
	return nil
}
func (s *SimLogCT) GetCommitIndex() (uint64, error) {
	s.inc.mu.Lock()
	defer s.inc.mu.Unlock()
	return s.inc.disk.commit, nil
}

type SimLogMonoCT struct{ SimLogCT }

func (s *SimLogMonoCT) IsMonotonic() bool { return true }

// ---------------------------------------------------------------- SnapshotStore

type SimSnap struct {
	inc    *Incarnation
	retain int
}

type simSink struct {
	s      *SimSnap
	rec    *snapRec
	buf    bytes.Buffer
	closed bool
}

func (s *SimSnap) Create(version raft.SnapshotVersion, index, term uint64, configuration raft.Configuration,
	configurationIndex uint64, trans raft.Transport) (raft.SnapshotSink, error) {
	if version != 1 {
		return nil, fmt.Errorf("unsupported snapshot version %d", version)
	}
	inc := s.inc
	inc.mu.Lock()
	defer inc.mu.Unlock()
	inc.disk.snapVer++
	rec := &snapRec{ID: fmt.Sprintf("%d-%d-%d", term, index, inc.disk.snapVer), Index: index, Term: term,
		Cfg: configuration.Clone(), CfgIndex: configurationIndex, Seq: inc.disk.snapVer}
	return &simSink{s: s, rec: rec}, nil
}

func (k *simSink) Write(p []byte) (int, error) { return k.buf.Write(p) }
func (k *simSink) ID() string                  { return k.rec.ID }
func (k *simSink) Cancel() error {
	k.closed = true
	return nil
}
func (k *simSink) Close() error {
	if k.closed {
		return nil
	}
	k.closed = true
	inc := k.s.inc
	inc.mu.Lock()
	defer inc.mu.Unlock()
	emit, err := inc.mutGate("snapclose", false)
	if err != nil {
		return err
	}
	k.rec.Data = append([]byte(nil), k.buf.Bytes()...)
	inc.disk.snaps = append(inc.disk.snaps, k.rec)
	sortSnaps(inc.disk.snaps)
	if k.s.retain > 0 && len(inc.disk.snaps) > k.s.retain {
		inc.disk.snaps = inc.disk.snaps[:k.s.retain]
	}
	inc.disk.snapVer++
	if emit {
		inc.node.c.mu.Lock()
		user := inc.node.userRestoreActive
		inc.node.userRestoreActive = false
		inc.node.c.mu.Unlock()
		inc.node.c.Tr.Emit("snap", inc.node.ID, M{"op": "close", "id": k.rec.ID, "idx": k.rec.Index, "term": k.rec.Term,
			"cfg": inc.node.c.cfgStr(k.rec.Cfg), "cfgidx": k.rec.CfgIndex, "content": snapContent(k.rec.Data), "user": user})
	}
	return nil
}

// newest first by (term, index, creation order), like FileSnapshotStore.
func sortSnaps(s []*snapRec) {
	sort.SliceStable(s, func(i, j int) bool {
		a, b := s[i], s[j]
		if a.Term != b.Term {
			return a.Term > b.Term
		}
		if a.Index != b.Index {
			return a.Index > b.Index
		}
		return a.Seq > b.Seq
	})
}

func (s *SimSnap) List() ([]*raft.SnapshotMeta, error) {
	inc := s.inc
	inc.mu.Lock()
	defer inc.mu.Unlock()
	var out []*raft.SnapshotMeta
	for _, r := range inc.disk.snaps {
		out = append(out, r.meta())
	}
	return out, nil
}

func (r *snapRec) meta() *raft.SnapshotMeta {
	return &raft.SnapshotMeta{Version: 1, ID: r.ID, Index: r.Index, Term: r.Term, Configuration: r.Cfg.Clone(),
		ConfigurationIndex: r.CfgIndex, Size: int64(len(r.Data))}
}

func (s *SimSnap) Open(id string) (*raft.SnapshotMeta, io.ReadCloser, error) {
	inc := s.inc
	inc.mu.Lock()
	defer inc.mu.Unlock()
	for _, r := range inc.disk.snaps {
		if r.ID == id {
			if !inc.dead {
				inc.node.c.Tr.Emit("snap", inc.node.ID, M{"op": "open", "id": r.ID, "idx": r.Index, "term": r.Term})
			}
			return r.meta(), io.NopCloser(bytes.NewReader(r.Data)), nil
		}
	}
	return nil, nil, fmt.Errorf("sim: snapshot %s not found", id)
}

// deleteCaller names the library routine a DeleteRange comes from: "reset" (removeOldLogs), "compact" (compactLogs*),
// "truncate" (appendEntries), "restore" (restoreUserSnapshot) or "".
func deleteCaller() string {
	pcs := make([]uintptr, 24)
	n := runtime.Callers(3, pcs)
	fr := runtime.CallersFrames(pcs[:n])
	by := ""
	for {
		f, more := fr.Next()
		switch {
		case strings.HasSuffix(f.Function, ").removeOldLogs"):
			return "reset"
		case strings.Contains(f.Function, ").compactLogs") && by == "":
			by = "compact"
		case strings.HasSuffix(f.Function, ").appendEntries") && by == "":
			by = "truncate"
		case strings.HasSuffix(f.Function, ").restoreUserSnapshot") && by == "":
			by = "restore"
		}
		if !more {
			break
		}
	}
	return by
}
