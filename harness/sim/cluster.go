package sim

import (
	"fmt"
	"io"
	"math/rand"
	"sort"
	"strings"
	"sync"
	"testing"
	"testing/synctest"
	"time"

	"github.com/hashicorp/go-hclog"
	"github.com/hashicorp/raft"
)

// Options configure a simulated cluster.
type Options struct {
	Seed       int64
	Servers    []string          // all server ids of the universe
	Initial    map[string]string // bootstrap configuration: id -> "V" | "N"
	Heartbeat  time.Duration
	Election   time.Duration
	Lease      time.Duration
	CommitTO   time.Duration
	MaxAppend  int
	Trailing   uint64
	SnapThresh uint64
	SnapIntv   time.Duration
	PreVoteOff bool
	Pipeline   bool
	HBFast     bool
	Mono       bool // monotonic log store flavour
	CommitTrack bool // commit tracking flavour + RestoreCommittedLogs
	CTEager     bool // the commit-tracking store persists a staged commit index at once (like InmemCommitTrackingStore)
	BatchFSM   bool
	CfgStoreFSM bool
	BatchApplyCh bool
	ShutdownOnRemove bool
	NotifyBuf  int // capacity of Config.NotifyCh (-1: none)
	SnapRetain int
	LogHB      bool // log heartbeat exchanges that do not change state
	NoSnapRestoreOnStart bool
	Family     string
	PreVoteOffNodes map[string]bool // servers configured with PreVoteDisabled (mixed cluster)
	KeepMinorityDown bool // after faults stop, leave a crashed minority down (a majority must suffice)
	LeaseCheck bool // evaluate the C13 step-down bound on this run (fine ticks only)
	ExpectStable bool // fault-free run: leadership must never change
}

func DefaultOptions(seed int64) Options {
	return Options{
		Seed:      seed,
		Servers:   []string{"n1", "n2", "n3"},
		Initial:   map[string]string{"n1": "V", "n2": "V", "n3": "V"},
		Heartbeat: 50 * time.Millisecond, Election: 50 * time.Millisecond, Lease: 25 * time.Millisecond,
		CommitTO: 5 * time.Millisecond, MaxAppend: 4, Trailing: 2, SnapThresh: 1 << 30, SnapIntv: time.Hour,
		ShutdownOnRemove: false, NotifyBuf: 64, SnapRetain: 3, LogHB: false,
	}
}

// Node is one server of the cluster (across incarnations).
type Node struct {
	c     *Cluster
	ID    string
	disk  *Disk
	inc   *Incarnation
	incN  int
	Raft  *raft.Raft
	Trans *SimTransport
	FSM   *SimFSM
	Up    bool
	Notify chan bool
	lastSt string // fingerprint of the last emitted projection
	lastLogVer, lastSnapVer int
	lastIncN int
	everStarted bool
	handledIDs []int // RPCs this node handled during the current step
	handledClean bool
	userRestoreActive bool
	graceful bool // last stop was a graceful Shutdown()
}

// ClientOp is one API call made by a simulated client.
type ClientOp struct {
	ID    int
	Kind  string
	Node  string
	Arg   string
	Done  bool
	Err   string
	Index uint64
	Resp  string
	fut   raft.Future
	inc   *Incarnation
	reported bool
}

// Cluster is a set of real raft.Raft nodes wired to harness-owned collaborators.
type Cluster struct {
	T     *testing.T
	Opt   Options
	Tr    *Tracer
	Net   *Net
	Nodes []*Node
	byID  map[string]*Node
	Rng   *rand.Rand
	mu    sync.Mutex
	cfgTab map[string]map[string]string
	ops   []*ClientOp
	nextOp int
	nextPayload int
	handling map[int]handlingInfo
	Steps int
	hookMu sync.Mutex
	autoConsume bool
}

type handlingInfo struct{ pre string }

func NewCluster(t *testing.T, opt Options) *Cluster {
	c := &Cluster{T: t, Opt: opt, Tr: NewTracer(), byID: map[string]*Node{}, Rng: rand.New(rand.NewSource(opt.Seed)),
		cfgTab: map[string]map[string]string{}, handling: map[int]handlingInfo{}}
	c.Net = newNet(c)
	for _, id := range opt.Servers {
		n := &Node{c: c, ID: id, disk: newDisk()}
		if opt.NotifyBuf >= 0 {
			n.Notify = make(chan bool, opt.NotifyBuf)
		}
		c.Nodes = append(c.Nodes, n)
		c.byID[id] = n
	}
	raft.VerifSetHook(func(name string, args ...interface{}) { c.onHook(name, args...) })
	return c
}

func (c *Cluster) Node(id string) *Node { return c.byID[id] }

func (c *Cluster) onHook(name string, args ...interface{}) {
	if strings.HasPrefix(name, "fs.") {
		return
	}
	// the hook runs on the main goroutine of some node; identify it by goroutine-free means: args only
	kv := M{"name": name}
	var xs []any
	node := ""
	for i, a := range args {
		if i == 0 {
			if sv, ok := a.(string); ok {
				node = sv
			}
		}
		xs = append(xs, a)
	}
	kv["args"] = xs
	if n := c.byID[node]; n != nil && n.inc != nil {
		n.inc.mu.Lock()
		d := n.inc.dead
		n.inc.mu.Unlock()
		if d {
			return
		}
	}
	c.Tr.Emit("hook", node, kv)
}

// cfgStr canonical string for a configuration, registered in the table.
func (c *Cluster) cfgStr(cfg raft.Configuration) string {
	m := map[string]string{}
	var ids []string
	for _, s := range cfg.Servers {
		suf := "V"
		switch s.Suffrage {
		case raft.Nonvoter:
			suf = "N"
		case raft.Staging:
			suf = "S"
		}
		m[string(s.ID)] = suf
		ids = append(ids, string(s.ID))
	}
	sort.Strings(ids)
	var sb strings.Builder
	for i, id := range ids {
		if i > 0 {
			sb.WriteByte(',')
		}
		sb.WriteString(id + "=" + m[id])
	}
	k := sb.String()
	if k == "" {
		k = "-"
	}
	c.mu.Lock()
	if _, ok := c.cfgTab[k]; !ok {
		c.cfgTab[k] = m
	}
	c.mu.Unlock()
	return k
}

func mkConfiguration(m map[string]string) raft.Configuration {
	var ids []string
	for id := range m {
		ids = append(ids, id)
	}
	sort.Strings(ids)
	var cfg raft.Configuration
	for _, id := range ids {
		s := raft.Server{ID: raft.ServerID(id), Address: raft.ServerAddress(id)}
		if m[id] == "N" {
			s.Suffrage = raft.Nonvoter
		}
		cfg.Servers = append(cfg.Servers, s)
	}
	return cfg
}

func (c *Cluster) raftConfig(id string) *raft.Config {
	conf := raft.DefaultConfig()
	conf.LocalID = raft.ServerID(id)
	conf.HeartbeatTimeout = c.Opt.Heartbeat
	conf.ElectionTimeout = c.Opt.Election
	conf.LeaderLeaseTimeout = c.Opt.Lease
	conf.CommitTimeout = c.Opt.CommitTO
	conf.MaxAppendEntries = c.Opt.MaxAppend
	conf.TrailingLogs = c.Opt.Trailing
	conf.SnapshotThreshold = c.Opt.SnapThresh
	conf.SnapshotInterval = c.Opt.SnapIntv
	conf.ShutdownOnRemove = c.Opt.ShutdownOnRemove
	conf.PreVoteDisabled = c.Opt.PreVoteOff || c.Opt.PreVoteOffNodes[id]
	conf.BatchApplyCh = c.Opt.BatchApplyCh
	conf.RestoreCommittedLogs = c.Opt.CommitTrack
	conf.NoSnapshotRestoreOnStart = c.Opt.NoSnapRestoreOnStart
	conf.NoLegacyTelemetry = true
	conf.Logger = hclog.New(&hclog.LoggerOptions{Output: io.Discard, Level: hclog.Off})
	return conf
}

// Bootstrap writes the initial configuration into the disks of its members.
func (c *Cluster) Bootstrap() {
	cfg := mkConfiguration(c.Opt.Initial)
	for _, n := range c.Nodes {
		if _, ok := c.Opt.Initial[n.ID]; !ok {
			continue
		}
		inc := &Incarnation{node: n, disk: n.disk, dead: false}
		inc.starting = true
		logs := &SimLog{inc: inc}
		st := &SimStable{inc: inc}
		sn := &SimSnap{inc: inc, retain: c.Opt.SnapRetain}
		tr := c.Net.newTransport(n.ID, -1)
		c.Tr.off = true
		if err := raft.BootstrapCluster(c.raftConfig(n.ID), logs, st, sn, tr, cfg); err != nil {
			c.T.Fatalf("bootstrap %s: %v", n.ID, err)
		}
		c.Tr.off = false
	}
	c.cfgStr(cfg)
}

// Start (re)starts a node from its durable image. Returns false when NewRaft did not return.
func (c *Cluster) Start(id string) (ok bool) {
	n := c.byID[id]
	if n.Up {
		return true
	}
	n.incN++
	inc := &Incarnation{node: n, n: n.incN, disk: n.disk, starting: true}
	n.inc = inc
	var logs raft.LogStore
	base := SimLog{inc: inc, mono: c.Opt.Mono}
	switch {
	case c.Opt.Mono && c.Opt.CommitTrack:
		logs = &SimLogMonoCT{SimLogCT{base}}
	case c.Opt.Mono:
		logs = &SimLogMono{base}
	case c.Opt.CommitTrack:
		logs = &SimLogCT{base}
	default:
		logs = &base
	}
	st := &SimStable{inc: inc}
	sn := &SimSnap{inc: inc, retain: c.Opt.SnapRetain}
	n.FSM = newSimFSM(inc)
	var fsm raft.FSM = n.FSM
	if c.Opt.BatchFSM {
		fsm = &SimFSMBatch{n.FSM}
	} else if c.Opt.CfgStoreFSM {
		fsm = &SimFSMCfg{n.FSM}
	}
	n.Trans = c.Net.newTransport(id, n.incN)
	if c.Opt.NotifyBuf >= 0 {
		n.Notify = make(chan bool, c.Opt.NotifyBuf) // a new process has a new channel
	}
	conf := c.raftConfig(id)
	if n.Notify != nil {
		conf.NotifyCh = n.Notify
	}
	c.Tr.Emit("restart", id, M{"inc": n.incN})
	type res struct {
		r   *raft.Raft
		err error
		pan any
	}
	ch := make(chan res, 1)
	go func() {
		var rs res
		defer func() {
			if p := recover(); p != nil {
				rs.pan = p
			}
			ch <- rs
		}()
		rs.r, rs.err = raft.NewRaft(conf, fsm, logs, st, sn, n.Trans)
	}()
	synctest.Wait()
	select {
	case rs := <-ch:
		inc.mu.Lock()
		inc.starting = false
		inc.mu.Unlock()
		if rs.pan != nil {
			c.Tr.Emit("startfail", id, M{"why": "panic", "msg": fmt.Sprint(rs.pan)})
			n.Trans.kill()
			return false
		}
		if rs.err != nil {
			c.Tr.Emit("startfail", id, M{"why": "error", "msg": rs.err.Error()})
			n.Trans.kill()
			return false
		}
		n.Raft = rs.r
	default:
		c.Tr.Emit("startfail", id, M{"why": "blocked"})
		n.Trans.kill()
		return false
	}
	// inline observer: runs on the goroutine that calls setState, so the event is
	// stamped at the instant of the role change.
	r := n.Raft
	obs := raft.NewObserver(nil, false, func(o *raft.Observation) bool {
		if st, ok := o.Data.(raft.RaftState); ok {
			inc.mu.Lock()
			d := inc.dead
			inc.mu.Unlock()
			if !d {
				c.Tr.Emit("role", id, M{"role": roleStr(st), "term": r.CurrentTerm()})
			}
		}
		return false
	})
	r.RegisterObserver(obs)
	n.Up = true
	n.graceful = false
	n.everStarted = true
	n.lastSt = ""
	c.emitState("started", n, true)
	return true
}

func roleStr(s raft.RaftState) string {
	switch s {
	case raft.Follower:
		return "F"
	case raft.Candidate:
		return "C"
	case raft.Leader:
		return "L"
	}
	return "S"
}

// StartAll boots every bootstrapped server.
func (c *Cluster) StartAll() {
	for _, n := range c.Nodes {
		if _, ok := c.Opt.Initial[n.ID]; ok {
			c.Start(n.ID)
		}
	}
}

// Crash stops a node abruptly: volatile state is lost, the durable image stays.
func (c *Cluster) Crash(id string) {
	n := c.byID[id]
	if !n.Up {
		return
	}
	n.inc.detach()
	c.finishCrash(n, "crash")
}

func (c *Cluster) finishCrash(n *Node, ev string) {
	n.Up = false
	n.inc.Unpark()
	n.Trans.kill()
	n.FSM.SetGated(false)
	r := n.Raft
	go func() { _ = r.Shutdown().Error() }()
	// fail RPCs of the dead incarnation
	c.Net.failAllFrom(n.ID, n.incN)
	synctest.Wait()
	c.Tr.Emit(ev, n.ID, M{"inc": n.incN, "st": c.project(n, true)})
	n.lastSt = ""
}

// Shutdown stops a node gracefully through the API.
func (c *Cluster) Shutdown(id string) {
	n := c.byID[id]
	if !n.Up {
		return
	}
	r := n.Raft
	c.Tr.Emit("shutdown", n.ID, M{"inc": n.incN})
	n.inc.mu.Lock()
	n.inc.graceful = true
	n.inc.mu.Unlock()
	n.inc.Unpark()
	go func() { _ = r.Shutdown().Error() }()
	synctest.Wait()
	n.inc.detach()
	n.Up = false
	n.Trans.kill()
	n.FSM.SetGated(false)
	c.Net.failAllFrom(n.ID, n.incN)
	synctest.Wait()
	c.Tr.Emit("down", n.ID, M{"inc": n.incN, "st": c.project(n, true)})
	n.lastSt = ""
	n.graceful = true
}

func (n *Net) failAllFrom(id string, inc int) {
	n.mu.Lock()
	var rs []*Rpc
	for _, r := range append(append([]*Rpc(nil), n.pending...), n.fresh...) {
		if r.Src == id && r.SrcInc == inc && r.Phase != phDone {
			rs = append(rs, r)
		}
	}
	n.mu.Unlock()
	for _, r := range rs {
		if r.Phase == phInHand {
			continue // the waiter goroutine will finish it; caller side is released by transport death
		}
		n.mu.Lock()
		r.Phase = phDone
		n.remove(r)
		n.mu.Unlock()
	}
}

// After every scheduler step: settle, number new RPCs, emit state changes, handle gate crashes.
func (c *Cluster) Settle(cause string) {
	synctest.Wait()
	// a crash point inside a store write: everything the zombie did after it (including RPCs it
	// sent) never happened, so it is discarded before the new RPCs of this step are numbered
	for _, n := range c.Nodes {
		if n.Up && n.inc.crashedAtGate {
			n.inc.crashedAtGate = false
			c.finishCrash(n, "crash")
		}
	}
	c.Net.canonicalise()
	for _, n := range c.Nodes {
		if n.Up {
			c.emitState(cause, n, false)
		}
	}
	c.Steps++
}

func (c *Cluster) emitState(cause string, n *Node, force bool) {
	d := n.disk
	fpv := fmt.Sprintf("|%d|%d|%d", d.logVer, d.snapVer, n.incN)
	st := c.project(n, false)
	lg, hasLog := st["log"]
	sn, hasSn := st["snaps"]
	delete(st, "log")
	delete(st, "snaps")
	fp := fmt.Sprint(st) + fpv
	if hasLog {
		st["log"] = lg
	}
	if hasSn {
		st["snaps"] = sn
	}
	c.mu.Lock()
	hs := n.handledIDs
	n.handledIDs = nil
	c.mu.Unlock()
	if !force && fp == n.lastSt && len(hs) == 0 {
		return
	}
	n.lastSt = fp
	kv := M{"cause": cause, "st": st}
	if n.inc != nil && n.inc.Parked() {
		kv["busy"] = true // the main goroutine is parked inside a store write: a mid-handler state
	}
	if len(hs) > 0 {
		kv["h"] = hs
		// "clean": this step was exactly one request handed to an idle server, so the
		// previous projection of the server is the handler's pre-state
		// (and no store error was injected into it: the handlers' error paths are not modelled)
		failed := false
		if n.inc != nil {
			n.inc.mu.Lock()
			failed, n.inc.failedSince = n.inc.failedSince, false
			n.inc.mu.Unlock()
		}
		kv["clean"] = len(hs) == 1 && n.handledClean && cause == "deliver" && !failed
	}
	c.Tr.Emit("state", n.ID, kv)
}

// project builds the observable state of one node. Logs and snapshot lists are
// included only when they changed since the last projection of this node.
func (c *Cluster) project(n *Node, full bool) M {
	st := M{"up": n.Up, "inc": n.incN}
	d := n.disk
	inc := n.inc
	if inc != nil {
		inc.mu.Lock()
	}
	ct := d.kvInt["CurrentTerm"]
	vt := d.kvInt["LastVoteTerm"]
	vc := string(d.kv["LastVoteCand"])
	st["ct"], st["vt"], st["vc"] = ct, vt, vc
	st["dcommit"] = d.commit
	if full || n.lastLogVer != d.logVer || n.lastIncN != n.incN {
		st["log"] = c.logJSON(d)
		n.lastLogVer = d.logVer
	}
	if full || n.lastSnapVer != d.snapVer || n.lastIncN != n.incN {
		var ss []any
		for _, s := range d.snaps {
			ss = append(ss, M{"id": s.ID, "idx": s.Index, "term": s.Term, "cfg": c.cfgStr(s.Cfg), "cfgidx": s.CfgIndex, "content": snapContent(s.Data)})
		}
		if ss == nil {
			ss = []any{}
		}
		st["snaps"] = ss
		n.lastSnapVer = d.snapVer
	}
	n.lastIncN = n.incN
	if inc != nil {
		inc.mu.Unlock()
	}
	if !n.Up || n.Raft == nil {
		return st
	}
	r := n.Raft
	st["role"] = roleStr(r.State())
	st["term"] = r.CurrentTerm()
	_, lid := r.LeaderWithID()
	st["leader"] = string(lid)
	st["commit"] = r.CommitIndex()
	st["applied"] = r.AppliedIndex()
	st["last"] = r.LastIndex()
	vs := r.VerifState()
	st["llog"] = []uint64{vs.LastLogIndex, vs.LastLogTerm}
	st["lsnap"] = []uint64{vs.LastSnapIndex, vs.LastSnapTerm}
	st["cc"] = c.cfgStr(vs.Committed)
	st["cci"] = vs.CommittedIndex
	st["cl"] = c.cfgStr(vs.Latest)
	st["cli"] = vs.LatestIndex
	st["xfer"] = vs.FromTransfer
	if vs.Leader != nil {
		mt := M{}
		for k, v := range vs.Leader.Match {
			mt[string(k)] = v
		}
		nx := M{}
		for k, v := range vs.Leader.Next {
			nx[string(k)] = v
		}
		st["ldr"] = M{"start": vs.Leader.StartIndex, "commit": vs.Leader.CommitIndex, "match": mt, "next": nx,
			"inflight": vs.Leader.Inflight, "xfer": vs.Leader.Transfer}
	}
	fc := n.FSM.Content()
	st["fsmn"] = len(fc)
	return st
}

func (c *Cluster) logJSON(d *Disk) M {
	lo, hi := d.firstLast()
	segs := []any{}
	if lo != 0 {
		var cur []any
		var start uint64
		for i := lo; i <= hi; i++ {
			l, ok := d.logs[i]
			if !ok {
				if cur != nil {
					segs = append(segs, M{"lo": start, "es": cur})
					cur = nil
				}
				continue
			}
			if cur == nil {
				start = i
			}
			cur = append(cur, c.entryJSON(l))
		}
		if cur != nil {
			segs = append(segs, M{"lo": start, "es": cur})
		}
	}
	return M{"lo": lo, "hi": hi, "segs": segs}
}

func (c *Cluster) entryJSON(l *raft.Log) []any {
	id := payloadID(l)
	if l.Type == raft.LogConfiguration {
		id = c.cfgStr(raft.DecodeConfiguration(l.Data))
	}
	return []any{l.Term, typeStr(l.Type), id}
}

func reqJSON(c *Cluster, kind string, req any) M {
	switch r := req.(type) {
	case *raft.AppendEntriesRequest:
		es := []any{}
		for _, e := range r.Entries {
			es = append(es, append([]any{e.Index}, c.entryJSON(e)...))
		}
		return M{"term": r.Term, "leader": string(r.ID), "prev": r.PrevLogEntry, "prevterm": r.PrevLogTerm, "commit": r.LeaderCommitIndex, "entries": es}
	case *raft.RequestVoteRequest:
		return M{"term": r.Term, "cand": string(r.ID), "lli": r.LastLogIndex, "llt": r.LastLogTerm, "xfer": r.LeadershipTransfer}
	case *raft.RequestPreVoteRequest:
		return M{"term": r.Term, "cand": string(r.ID), "lli": r.LastLogIndex, "llt": r.LastLogTerm}
	case *raft.InstallSnapshotRequest:
		return M{"term": r.Term, "leader": string(r.ID), "idx": r.LastLogIndex, "sterm": r.LastLogTerm,
			"cfg": c.cfgStr(raft.DecodeConfiguration(r.Configuration)), "cfgidx": r.ConfigurationIndex, "size": r.Size}
	case *raft.TimeoutNowRequest:
		return M{"from": string(r.ID)}
	}
	return M{}
}

func respJSON(kind string, resp any) M {
	switch r := resp.(type) {
	case *raft.AppendEntriesResponse:
		return M{"term": r.Term, "last": r.LastLog, "ok": r.Success, "nobackoff": r.NoRetryBackoff}
	case *raft.RequestVoteResponse:
		return M{"term": r.Term, "granted": r.Granted}
	case *raft.RequestPreVoteResponse:
		return M{"term": r.Term, "granted": r.Granted}
	case *raft.InstallSnapshotResponse:
		return M{"term": r.Term, "ok": r.Success}
	case *raft.TimeoutNowResponse:
		return M{}
	}
	return M{}
}


// onHandled runs on the waiter goroutine right after the target responded:
// the handler step is complete, its effects are visible, nobody else has run.
func (c *Cluster) onHandled(r *Rpc, tgt *SimTransport) {
	n := c.byID[r.Dst]
	if n == nil || n.Trans != tgt {
		return
	}
	kv := M{"id": r.ID, "kind": r.Kind, "src": r.Src, "req": reqJSON(c, r.Kind, r.Req)}
	if r.Dup {
		kv["dup"] = true
	}
	if r.hErr != nil {
		kv["err"] = r.hErr.Error()
	} else {
		kv["resp"] = respJSON(r.Kind, r.hResp)
	}
	c.mu.Lock()
	n.handledIDs = append(n.handledIDs, r.ID)
	n.handledClean = r.clean
	c.mu.Unlock()
	c.Tr.Emit("handle", r.Dst, kv)
}

// Header builds the trace header (written first).
func (c *Cluster) Header() M {
	c.mu.Lock()
	tab := M{}
	for k, v := range c.cfgTab {
		mm := M{}
		for a, b := range v {
			mm[a] = b
		}
		tab[k] = mm
	}
	c.mu.Unlock()
	return M{"ev": "reset", "family": c.Opt.Family, "seed": c.Opt.Seed, "servers": c.Opt.Servers, "cfgtab": tab,
		"params": M{"maxappend": c.Opt.MaxAppend, "trailing": c.Opt.Trailing, "mono": c.Opt.Mono, "ct": c.Opt.CommitTrack, "cteager": c.Opt.CTEager,
			"hb_us": int64(c.Opt.Heartbeat / time.Microsecond), "el_us": int64(c.Opt.Election / time.Microsecond), "lease_us": int64(c.Opt.Lease / time.Microsecond),
			"prevote": !c.Opt.PreVoteOff, "pvoff": sortedKeys(c.Opt.PreVoteOffNodes), "batchfsm": c.Opt.BatchFSM, "cfgstore": c.Opt.CfgStoreFSM,
			"norestore": c.Opt.NoSnapRestoreOnStart, "leasecheck": c.Opt.LeaseCheck, "hbfast": c.Opt.HBFast}}
}

// Finish shuts everything down so the bubble can end, and writes the header.
func (c *Cluster) Finish() {
	for _, n := range c.Nodes {
		if n.Up {
			c.Shutdown(n.ID)
		}
	}
	// release anything still parked
	for _, r := range c.Net.Pending() {
		if r.Phase == phReq {
			c.Net.FailBefore(r)
		} else {
			c.Net.FailAfter(r)
		}
	}
	synctest.Wait()
	// give every timer-based path a chance (1000 election timeouts of virtual time), then
	// whatever is still unresolved is stranded for ever
	time.Sleep(1000 * c.Opt.Election)
	synctest.Wait()
	c.ResolveStranded()
	c.Tr.Emit("end", "", nil)
	c.Tr.PrependHeader(c.Header())
	raft.VerifSetHook(nil)
}

func sortedKeys(m map[string]bool) []string {
	out := []string{}
	for k, v := range m {
		if v {
			out = append(out, k)
		}
	}
	sort.Strings(out)
	return out
}
