package sim

import (
	"testing"
	"time"

	"github.com/hashicorp/raft"
)

// Drive runs the network, delivering only the RPCs that `allow` admits (others stay parked, i.e. are
// delayed), ticking time, until `until` holds or the virtual budget is spent.
func (c *Cluster) Drive(budget time.Duration, allow func(r *Rpc) bool, until func() bool) bool {
	end := time.Now().Add(budget)
	for {
		progressed := true
		for progressed {
			progressed = false
			for _, r := range c.Net.Pending() {
				if allow != nil && !allow(r) {
					continue
				}
				if r.Phase == phReq {
					c.Net.Deliver(r)
				} else {
					c.Net.Reply(r)
				}
				c.Settle("net")
				progressed = true
				if until != nil && until() {
					return true
				}
			}
		}
		if until != nil && until() {
			return true
		}
		if !time.Now().Before(end) {
			return false
		}
		c.Tick(5 * time.Millisecond)
	}
}

func (c *Cluster) isolate(a string) {
	for _, b := range c.Opt.Servers {
		if b != a {
			c.Net.SetBlocked(a, b, true)
		}
	}
	c.Tr.Emit("part", "", M{"op": "isolate", "a": a, "blocked": c.blockedJSON()})
}

func (c *Cluster) healAll() {
	c.Net.HealAll()
	c.Tr.Emit("part", "", M{"op": "heal", "blocked": c.blockedJSON()})
}

// dropPendingFrom fails every parked RPC sent by a (message loss).
func (c *Cluster) dropPendingFrom(a string) {
	for _, r := range c.Net.Pending() {
		if r.Src == a {
			if r.Phase == phReq {
				c.Net.FailBefore(r)
			} else {
				c.Net.FailAfter(r)
			}
			c.Settle("drop")
		}
	}
}

func isEntriesOfTerm(r *Rpc, term uint64) bool {
	a, ok := r.Req.(*raft.AppendEntriesRequest)
	if !ok {
		return false
	}
	for _, e := range a.Entries {
		if e.Term == term {
			return true
		}
	}
	return false
}

// famFigure8 stages the history of Figure 8 of the Raft paper (the TLC witness for "an old-term
// entry is on a majority but not committed"), with seed-dependent roles, entry counts and batch sizes:
//   1. A leads term t1 and appends x1..xk that reach nobody; A is cut off.
//   2. B wins t2 with C's vote; its no-op reaches nobody; B is cut off.
//   3. A wins t3 with C's vote and replicates ONLY its old-term entries to C (the t3 no-op is delayed).
//      Nothing may be committed now.
//   4. A is cut off; B (higher last term) wins t4 with C's vote and overwrites x1..xk on C.
func famFigure8(t *testing.T, seed int64, steps int) *Cluster {
	opt := DefaultOptions(seed)
	opt.Family = "figure8"
	opt.MaxAppend = 1 + int(seed%2)
	opt.Trailing = 100
	c := NewCluster(t, opt)
	c.Bootstrap()
	c.StartAll()
	ids := append([]string(nil), opt.Servers...)
	c.Rng.Shuffle(len(ids), func(i, j int) { ids[i], ids[j] = ids[j], ids[i] })
	// step 0: somebody leads; call it A
	A := c.WaitLeader(2 * time.Second)
	if A == "" {
		return c
	}
	var B, C string
	for _, id := range ids {
		if id != A {
			if B == "" {
				B = id
			} else {
				C = id
			}
		}
	}
	c.RunQuiet(30*time.Millisecond, 5*time.Millisecond)
	// step 1: A appends entries that reach nobody
	c.isolate(A)
	k := 1 + int(seed%3)
	for i := 0; i < k; i++ {
		c.Apply(A, 0)
		c.Settle("client")
	}
	c.dropPendingFrom(A)
	// step 2: B wins with C's vote (A stays cut off and steps down by lease)
	okB := c.Drive(3*time.Second, func(r *Rpc) bool {
		// B's AppendEntries with entries are delayed so its no-op reaches nobody; votes and heartbeats flow
		if r.Src == B && r.Kind == "ae" && len(r.Req.(*raft.AppendEntriesRequest).Entries) > 0 {
			return false
		}
		return true
	}, func() bool { return c.byID[B].Raft.State() == raft.Leader })
	if !okB {
		// C won instead: swap roles
		if c.byID[C].Raft.State() == raft.Leader {
			B, C = C, B
		} else {
			c.healAll()
			c.converge(300 * time.Millisecond)
			return c
		}
	}
	t2 := c.byID[B].Raft.CurrentTerm()
	c.isolate(B)
	c.dropPendingFrom(B)
	// step 3: A and C talk again; A has to win a term above t2
	c.Net.SetBlocked(A, C, false)
	c.Tr.Emit("part", "", M{"op": "uncut", "a": A, "b": C, "blocked": c.blockedJSON()})
	okA := c.Drive(6*time.Second, func(r *Rpc) bool {
		// only A campaigns: C's own vote requests are delayed
		return !(r.Src == C && (r.Kind == "pv" || r.Kind == "rv"))
	},
		func() bool { return c.byID[A].Raft.State() == raft.Leader && c.byID[A].Raft.CurrentTerm() > t2 })
	if okA {
		t3 := c.byID[A].Raft.CurrentTerm()
		// deliver A's old-term entries to C, delay anything that carries a t3 entry
		c.Drive(400*time.Millisecond, func(r *Rpc) bool { return !(r.Src == A && isEntriesOfTerm(r, t3)) }, nil)
		// step 4: A is cut off, B comes back and wins with C's vote
		c.isolate(A)
		c.dropPendingFrom(A)
		c.Net.SetBlocked(B, C, false)
		c.Tr.Emit("part", "", M{"op": "uncut", "a": B, "b": C, "blocked": c.blockedJSON()})
		c.Drive(6*time.Second, nil, func() bool {
			return c.byID[B].Raft.State() == raft.Leader && c.byID[B].Raft.CommitIndex() >= c.byID[B].Raft.LastIndex()
		})
		if l := c.Leader(); l != "" {
			c.Apply(l, 0)
			c.Settle("client")
			c.Drive(300*time.Millisecond, nil, nil)
		}
	}
	c.healAll()
	c.converge(500 * time.Millisecond)
	return c
}
