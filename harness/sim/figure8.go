package sim

import (
	"fmt"
	"math/rand"
	"sort"
	"testing"
	"time"

	"github.com/hashicorp/raft"
)

// Drive runs the network, delivering only the RPCs that `allow` admits (others stay parked, i.e. are
// delayed), ticking time, until `until` holds or the virtual budget is spent.
func (c *Cluster) Drive(budget time.Duration, allow func(r *Rpc) bool, until func() bool) bool {
	end := time.Now().Add(budget)
	for {
		progressed := true
		for progressed {
			progressed = false
			for _, r := range c.Net.Pending() {
				if allow != nil && !allow(r) {
					continue
				}
				if r.Phase == phReq {
					c.Net.Deliver(r)
					c.Settle("deliver")
				} else {
					c.Net.Reply(r)
					c.Settle("net")
				}
				progressed = true
				if until != nil && until() {
					return true
				}
			}
		}
		if until != nil && until() {
			return true
		}
		if !time.Now().Before(end) {
			return false
		}
		c.Tick(5 * time.Millisecond)
	}
}

func (c *Cluster) isolate(a string) {
	for _, b := range c.Opt.Servers {
		if b != a {
			c.Net.SetBlocked(a, b, true)
		}
	}
	c.Tr.Emit("part", "", M{"op": "isolate", "a": a, "blocked": c.blockedJSON()})
}

func (c *Cluster) healAll() {
	c.Net.HealAll()
	c.Tr.Emit("part", "", M{"op": "heal", "blocked": c.blockedJSON()})
}

// dropPendingFrom fails every parked RPC sent by a (message loss).
func (c *Cluster) dropPendingFrom(a string) {
	for _, r := range c.Net.Pending() {
		if r.Src == a {
			if r.Phase == phReq {
				c.Net.FailBefore(r)
			} else {
				c.Net.FailAfter(r)
			}
			c.Settle("drop")
		}
	}
}

func isEntriesOfTerm(r *Rpc, term uint64) bool {
	a, ok := r.Req.(*raft.AppendEntriesRequest)
	if !ok {
		return false
	}
	for _, e := range a.Entries {
		if e.Term == term {
			return true
		}
	}
	return false
}

// famFigure8 stages the history of Figure 8 of the Raft paper (the TLC witness for "an old-term
// entry is on a majority but not committed"), with seed-dependent roles, entry counts and batch sizes:
//   1. A leads term t1 and appends x1..xk that reach nobody; A is cut off.
//   2. B wins t2 with C's vote; its no-op reaches nobody; B is cut off.
//   3. A wins t3 with C's vote and replicates ONLY its old-term entries to C (the t3 no-op is delayed).
//      Nothing may be committed now.
//   4. A is cut off; B (higher last term) wins t4 with C's vote and overwrites x1..xk on C.
func famFigure8(t *testing.T, seed int64, steps int) *Cluster {
	opt := DefaultOptions(seed)
	opt.Family = "figure8"
	opt.MaxAppend = 1 + int(seed%2)
	opt.Trailing = 100
	c := NewCluster(t, opt)
	c.Bootstrap()
	c.StartAll()
	ids := append([]string(nil), opt.Servers...)
	c.Rng.Shuffle(len(ids), func(i, j int) { ids[i], ids[j] = ids[j], ids[i] })
	// step 0: somebody leads; call it A
	A := c.WaitLeader(2 * time.Second)
	if A == "" {
		return c
	}
	var B, C string
	for _, id := range ids {
		if id != A {
			if B == "" {
				B = id
			} else {
				C = id
			}
		}
	}
	c.RunQuiet(30*time.Millisecond, 5*time.Millisecond)
	// step 1: A appends entries that reach nobody
	c.isolate(A)
	k := 1 + int(seed%3)
	for i := 0; i < k; i++ {
		c.Apply(A, 0)
		c.Settle("client")
	}
	c.dropPendingFrom(A)
	// step 2: B wins with C's vote (A stays cut off and steps down by lease)
	okB := c.Drive(3*time.Second, func(r *Rpc) bool {
		// B's AppendEntries with entries are delayed so its no-op reaches nobody; votes and heartbeats flow
		if r.Src == B && r.Kind == "ae" && len(r.Req.(*raft.AppendEntriesRequest).Entries) > 0 {
			return false
		}
		return true
	}, func() bool { return c.byID[B].Raft.State() == raft.Leader })
	if !okB {
		// C won instead: swap roles
		if c.byID[C].Raft.State() == raft.Leader {
			B, C = C, B
		} else {
			c.healAll()
			c.converge(300 * time.Millisecond)
			return c
		}
	}
	t2 := c.byID[B].Raft.CurrentTerm()
	c.isolate(B)
	c.dropPendingFrom(B)
	// step 3: A and C talk again; A has to win a term above t2
	c.Net.SetBlocked(A, C, false)
	c.Tr.Emit("part", "", M{"op": "uncut", "a": A, "b": C, "blocked": c.blockedJSON()})
	okA := c.Drive(6*time.Second, func(r *Rpc) bool {
		// only A campaigns: C's own vote requests are delayed
		return !(r.Src == C && (r.Kind == "pv" || r.Kind == "rv"))
	},
		func() bool { return c.byID[A].Raft.State() == raft.Leader && c.byID[A].Raft.CurrentTerm() > t2 })
	if okA {
		t3 := c.byID[A].Raft.CurrentTerm()
		// deliver A's old-term entries to C, delay anything that carries a t3 entry
		c.Drive(400*time.Millisecond, func(r *Rpc) bool { return !(r.Src == A && isEntriesOfTerm(r, t3)) }, nil)
		// step 4: A is cut off, B comes back and wins with C's vote
		c.isolate(A)
		c.dropPendingFrom(A)
		c.Net.SetBlocked(B, C, false)
		c.Tr.Emit("part", "", M{"op": "uncut", "a": B, "b": C, "blocked": c.blockedJSON()})
		c.Drive(6*time.Second, nil, func() bool {
			return c.byID[B].Raft.State() == raft.Leader && c.byID[B].Raft.CommitIndex() >= c.byID[B].Raft.LastIndex()
		})
		if l := c.Leader(); l != "" {
			c.Apply(l, 0)
			c.Settle("client")
			c.Drive(300*time.Millisecond, nil, nil)
		}
	}
	c.healAll()
	c.converge(500 * time.Millisecond)
	return c
}

// famCfgTrunc stages: an isolated leader appends a membership change that never commits; the others elect a
// leader whose first entry lands on the SAME index; the partition heals and the old leader truncates exactly
// at its latest configuration entry; later it leads again and changes the membership.
func famCfgTrunc(t *testing.T, seed int64, steps int) *Cluster {
	opt := DefaultOptions(seed)
	opt.Family = "cfgtrunc"
	opt.Servers = []string{"n1", "n2", "n3", "n4"}
	opt.Initial = map[string]string{"n1": "V", "n2": "V", "n3": "V", "n4": "N"}
	c := NewCluster(t, opt)
	c.Bootstrap()
	c.StartAll()
	A := c.WaitLeader(2 * time.Second)
	if A == "" {
		return c
	}
	c.RunQuiet(40*time.Millisecond, 5*time.Millisecond)
	c.isolate(A)
	cmds := []string{"addvoter", "demote", "remove", "addvoter"}
	cmd := cmds[int(seed)%len(cmds)]
	tgt := "n4"
	if cmd == "demote" || cmd == "remove" {
		for _, id := range []string{"n1", "n2", "n3"} {
			if id != A {
				tgt = id
				break
			}
		}
	}
	c.Member(A, cmd, tgt, 0, 0)
	c.Settle("client")
	c.dropPendingFrom(A)
	// the others elect a leader; its no-op takes the index of A's configuration entry
	c.Drive(4*time.Second, nil, func() bool {
		l := c.Leader()
		return l != "" && l != A && c.byID[l].Raft.CommitIndex() >= c.byID[l].Raft.LastIndex()
	})
	c.healAll()
	c.Drive(600*time.Millisecond, nil, nil)
	// hand leadership back to A and change the membership again
	if l := c.Leader(); l != "" && l != A {
		c.Transfer(l, A)
		c.Settle("client")
		c.Drive(2*time.Second, nil, func() bool { return c.Leader() == A })
	}
	if c.Leader() == A && cmd == "addvoter" && seed%3 == 2 {
		// the server that only the discarded configuration made a voter is asked to take over: nobody whose log
		// does not hold that configuration may vote for it
		c.Transfer(A, "n4")
		c.Settle("client")
		c.Drive(3*opt.Election, nil, nil)
	}
	if c.Leader() == A {
		victim := map[bool]string{true: "n2", false: "n3"}[A != "n2" && seed%2 == 0]
		if seed%3 != 0 {
			// a voter of the configuration A itself goes by
			for _, s := range c.byID[A].Raft.VerifState().Latest.Servers {
				if string(s.ID) != A && s.Suffrage == raft.Voter {
					victim = string(s.ID)
				}
			}
		}
		if seed%3 == 1 {
			c.Drive(200*time.Millisecond, nil, func() bool { return c.byID[A].Raft.CommitIndex() >= c.byID[A].Raft.LastIndex() })
			c.isolate(A) // the change itself reaches nobody: only A's own idea of the membership lets it commit
		}
		c.Member(A, "remove", victim, 0, 0)
		c.Settle("client")
		c.Drive(500*time.Millisecond, nil, nil)
		c.Verify(A)
		c.Settle("client")
		c.Drive(200*time.Millisecond, nil, nil)
	}
	// A is cut off once more and is asked to write: whatever it acknowledges on its own must still be there
	// when the others - a majority of the configuration the LOGS prescribe - have elected a leader and written
	if c.Leader() == A && seed%3 != 0 {
		if seed%3 != 1 {
			c.isolate(A)
		}
		for i := 0; i < 2; i++ {
			c.Apply(A, 0)
			c.Settle("client")
		}
		c.Drive(6*opt.Election, nil, func() bool {
			for _, n := range c.Nodes {
				if n.Up && n.ID != A && n.Raft.State() == raft.Leader {
					return true
				}
			}
			return false
		})
		for _, n := range c.Nodes {
			if n.Up && n.ID != A && n.Raft.State() == raft.Leader {
				c.Apply(n.ID, 0)
				c.Settle("client")
			}
		}
		c.Drive(200*time.Millisecond, nil, nil)
		c.healAll()
		c.Drive(400*time.Millisecond, nil, nil)
	}
	c.convergeNoExpect(400 * time.Millisecond)
	return c
}

// famSnapCfgRace stages a snapshot that is requested while the FSM goroutine is busy and a membership change
// commits meanwhile; afterwards the server restarts from that snapshot (C10, C11).
func famSnapCfgRace(t *testing.T, seed int64, steps int) *Cluster {
	opt := DefaultOptions(seed)
	opt.Family = "snapcfgrace"
	opt.Servers = []string{"n1", "n2", "n3", "n4"}
	opt.Initial = map[string]string{"n1": "V", "n2": "V", "n3": "V", "n4": "N"}
	opt.SnapThresh = 1000 // only the snapshot asked for below
	opt.Trailing = uint64(seed % 2)
	opt.CfgStoreFSM = seed%2 == 0 // the FSM's index follows configuration entries only for a ConfigurationStore
	c := NewCluster(t, opt)
	c.Bootstrap()
	c.StartAll()
	L := c.WaitLeader(2 * time.Second)
	if L == "" {
		return c
	}
	for i := 0; i < 2+int(seed%3); i++ {
		c.Apply(L, 0)
		c.Settle("client")
	}
	c.Drive(100*time.Millisecond, nil, nil)
	if c.Leader() != L {
		return c
	}
	ln := c.byID[L]
	ln.FSM.SetGated(true)
	c.Apply(L, 0)
	c.Settle("client")
	c.Drive(300*time.Millisecond, nil, func() bool { return ln.FSM.Waiting() > 0 }) // the FSM goroutine is inside Apply
	// a backlog of committed commands queues up behind it
	for i := 0; i < int(seed/4)%3; i++ {
		c.Apply(L, 0)
		c.Settle("client")
	}
	c.Drive(60*time.Millisecond, nil, nil)
	c.UserSnapshot(L)
	c.Settle("client")
	cmds := []string{"addvoter", "demote", "remove", "addvoter"}
	cmd := cmds[int(seed/2)%len(cmds)]
	tgt := "n4"
	if cmd != "addvoter" {
		for _, id := range []string{"n1", "n2", "n3"} {
			if id != L {
				tgt = id
				break
			}
		}
	}
	mop := c.Member(L, cmd, tgt, 0, 0)
	c.Settle("client")
	c.Drive(600*time.Millisecond, nil, func() bool { return mop.Done })
	if seed%4 != 3 {
		c.Apply(L, 0) // a command behind the configuration entry moves the FSM's index past it
		c.Settle("client")
		c.Drive(100*time.Millisecond, nil, nil)
	}
	// let the FSM goroutine go on, one call at a time
	for i := 0; i < 12; i++ {
		ln.FSM.Release(1)
		c.Settle("fsm")
		c.Drive(20*time.Millisecond, nil, nil)
	}
	ln.FSM.SetGated(false)
	c.Settle("fsm")
	c.Drive(300*time.Millisecond, nil, nil)
	// restart the server: it must come back with the configuration it had durably recorded
	if ln.Up {
		c.Crash(L)
		c.Drive(50*time.Millisecond, nil, nil)
		c.Start(L)
		c.Settle("restart")
	}
	c.convergeNoExpect(500 * time.Millisecond)
	return c
}

// famRestoreInflight stages a user Restore on a leader that has Apply calls in flight while one follower lags
// (C20, C02): the calls must fail with ErrAbortedByRestore and leave no trace, every later entry gets a fresh
// index, and every follower ends with the restored state followed by the later entries.
func famRestoreInflight(t *testing.T, seed int64, steps int) *Cluster {
	opt := DefaultOptions(seed)
	opt.Family = "restoreinflight"
	opt.BatchFSM = seed%3 == 2
	opt.Mono = seed%2 == 1
	opt.MaxAppend = 1 + int(seed%3)
	opt.Trailing = uint64(seed % 3)
	c := NewCluster(t, opt)
	c.Bootstrap()
	c.StartAll()
	L := c.WaitLeader(2 * time.Second)
	if L == "" {
		return c
	}
	var others []string
	for _, id := range opt.Servers {
		if id != L {
			others = append(others, id)
		}
	}
	for i := 0; i < 3+int(seed%4); i++ {
		c.Apply(L, 0)
		c.Settle("client")
	}
	c.Drive(100*time.Millisecond, nil, nil)
	// one follower falls behind
	lag := others[int(seed/2)%len(others)]
	c.isolate(lag)
	for i := 0; i < 2+int(seed%5); i++ {
		c.Apply(L, 0)
		c.Settle("client")
	}
	c.Drive(100*time.Millisecond, nil, nil)
	if c.Leader() != L {
		c.healAll()
		c.converge(500 * time.Millisecond)
		return c
	}
	// the leader is cut off: its next writes stay in flight
	c.healAll()
	c.isolate(L)
	c.dropPendingFrom(L)
	var infl []*ClientOp
	for i := 0; i < 1+int(seed%3); i++ {
		infl = append(infl, c.Apply(L, 0))
		c.Settle("client")
	}
	ln := c.byID[L]
	last := ln.Raft.LastIndex()
	// snapshot index: below, at or above the leader's last index
	idx := []uint64{1, last - 1, last, last + 3}[int(seed/3)%4]
	if idx == 0 {
		idx = 1
	}
	if seed%5 == 4 {
		// an uncommitted membership change is outstanding: the Restore must be refused, without any effect
		c.Member(L, "addnonvoter", "n9", 0, 0)
		c.Settle("client")
	}
	rop := c.UserRestore(L, []string{fmt.Sprintf("u%d.1", seed), fmt.Sprintf("u%d.2", seed)}, idx, 1, 0)
	c.Settle("client")
	// the restore is processed locally; then the network heals before the leader's lease runs out (or after)
	c.Drive(time.Duration(seed%4)*10*time.Millisecond, nil, nil)
	c.healAll()
	c.Drive(800*time.Millisecond, nil, func() bool { return rop != nil && rop.Done })
	if ld := c.Leader(); ld != "" {
		for i := 0; i < 2; i++ {
			c.Apply(ld, 0)
			c.Settle("client")
		}
	}
	c.Drive(300*time.Millisecond, nil, nil)
	_ = infl
	c.converge(800 * time.Millisecond)
	return c
}

// famPreVoteTerm stages the one shape in which a pre-vote must be granted at the voter's OWN term: the old
// leader A is gone for good after it collected B's vote for term T+1; B (term T+1) has a stale log, C (term T)
// holds everything. C can only win if B grants C's pre-vote for T+1 -- a majority (B, C) can communicate, so
// the cluster must elect a leader and accept writes (C12), and B must not raise its term on its own (C14).
func famPreVoteTerm(t *testing.T, seed int64, steps int) *Cluster {
	opt := DefaultOptions(seed)
	opt.Family = "prevoteterm"
	opt.KeepMinorityDown = true
	c := NewCluster(t, opt)
	c.Bootstrap()
	c.StartAll()
	A := c.WaitLeader(2 * time.Second)
	if A == "" {
		return c
	}
	var others []string
	for _, id := range opt.Servers {
		if id != A {
			others = append(others, id)
		}
	}
	B, C := others[int(seed)%2], others[1-int(seed)%2]
	c.Apply(A, 0)
	c.Settle("client")
	c.Drive(100*time.Millisecond, nil, nil)
	// B falls behind by one committed entry
	c.isolate(B)
	c.Apply(A, 0)
	c.Settle("client")
	c.Drive(60*time.Millisecond, nil, nil)
	c.healAll()
	if c.Leader() != A {
		c.converge(500 * time.Millisecond)
		return c
	}
	// nothing gets through: A's lease runs out; whatever B and C send stays parked and is then lost
	an := c.byID[A]
	c.Drive(400*time.Millisecond, func(r *Rpc) bool { return false }, func() bool { return an.Raft.State() != raft.Leader })
	c.dropPendingFrom(A)
	c.dropPendingFrom(B)
	c.dropPendingFrom(C)
	T := an.Raft.CurrentTerm()
	// only A's requests travel: its pre-vote reaches both, its RequestVote reaches B alone
	bn := c.byID[B]
	ok := c.Drive(600*time.Millisecond, func(r *Rpc) bool {
		return r.Src == A && (r.Kind == "pv" || (r.Kind == "rv" && r.Dst == B))
	}, func() bool { return bn.Raft.CurrentTerm() > T })
	c.Crash(A)
	c.Settle("crash")
	c.dropPendingFrom(A)
	c.dropPendingFrom(B)
	c.dropPendingFrom(C)
	_ = ok
	c.converge(600 * time.Millisecond)
	return c
}

// famLeaseIso: the leader keeps talking to non-voters (and possibly to a minority of the voters) while the
// other voters are cut off: it must give up leadership within twice the lease timeout (C13); with a majority
// of the voters still answering it must stay.
func famLeaseIso(t *testing.T, seed int64, steps int) *Cluster {
	opt := DefaultOptions(seed)
	opt.Family = "leaseiso"
	opt.LeaseCheck = true
	switch seed % 3 {
	case 0:
		opt.Servers = []string{"n1", "n2", "n3", "n4", "n5"}
		opt.Initial = map[string]string{"n1": "V", "n2": "V", "n3": "V", "n4": "N", "n5": "N"}
	case 1:
		opt.Servers = []string{"n1", "n2", "n3", "n4"}
		opt.Initial = map[string]string{"n1": "V", "n2": "V", "n3": "V", "n4": "N"}
	default:
		opt.Servers = []string{"n1", "n2", "n3", "n4", "n5", "n6"}
		opt.Initial = map[string]string{"n1": "V", "n2": "V", "n3": "V", "n4": "V", "n5": "V", "n6": "N"}
	}
	c := NewCluster(t, opt)
	c.Bootstrap()
	c.StartAll()
	L := c.WaitLeader(2 * time.Second)
	if L == "" {
		return c
	}
	c.Apply(L, 0)
	c.Settle("client")
	c.RunQuiet(80*time.Millisecond, 2*time.Millisecond)
	if c.Leader() != L {
		c.converge(500 * time.Millisecond)
		return c
	}
	var voters []string
	for id, s := range opt.Initial {
		if s == "V" && id != L {
			voters = append(voters, id)
		}
	}
	sort.Strings(voters)
	if seed%4 >= 2 {
		// a leadership transfer that fails (the target cannot be reached) and leaves L leader of the same term
		v := voters[int(seed/4)%len(voters)]
		c.isolate(v)
		c.Apply(L, 0)
		c.Settle("client")
		c.Transfer(L, v)
		c.Settle("client")
		end := time.Now().Add(2 * opt.Election)
		for time.Now().Before(end) {
			c.DeliverAll(300)
			c.Tick(2 * time.Millisecond)
		}
		c.healAll()
		c.RunQuiet(80*time.Millisecond, 2*time.Millisecond)
		if c.Leader() != L {
			c.converge(500 * time.Millisecond)
			return c
		}
	}
	c.Rng.Shuffle(len(voters), func(i, j int) { voters[i], voters[j] = voters[j], voters[i] })
	// cut the leader off from so many voters that it keeps (seed even) exactly one short of / (seed odd) exactly a majority
	quorum := (len(voters)+1)/2 + 1
	keep := quorum - 2 // other voters it still reaches: one short of a majority (itself included)
	if seed%2 == 1 {
		keep = quorum - 1
	}
	for i, v := range voters {
		if i >= keep {
			c.Net.SetBlocked(L, v, true)
		}
	}
	termCut := c.byID[L].Raft.CurrentTerm()
	c.Tr.Emit("part", "", M{"op": "cutvoters", "a": L, "blocked": c.blockedJSON()})
	// fine ticks so that the step-down bound can be judged; the non-voters keep answering
	end := time.Now().Add(6 * opt.Lease)
	for time.Now().Before(end) {
		c.DeliverAll(300)
		c.Tick(time.Duration(1+c.Rng.Intn(3)) * time.Millisecond)
	}
	if seed%2 == 1 {
		// a majority of the voters kept answering all the time: the leader must still be the leader
		c.Tr.Emit("assertleader", L, M{"term": termCut})
	}
	c.Net.HealAll()
	c.Tr.Emit("part", "", M{"op": "heal", "blocked": c.blockedJSON()})
	c.converge(600 * time.Millisecond)
	return c
}

// famStalePrefix stages the history behind the C02 anchor "log store content below an installed snapshot":
// a deposed leader A leaves the never-committed entries x4,x5 on voter B and x4 on non-voter F; the rest of the
// cluster moves on, snapshots and compacts; B is caught up by InstallSnapshot (a gap-tolerant store keeps x4,x5
// below the snapshot), becomes leader and replicates to F from its log.
func famStalePrefix(t *testing.T, seed int64, steps int) *Cluster {
	opt := DefaultOptions(seed)
	opt.Family = "staleprefix"
	opt.Servers = []string{"n1", "n2", "n3", "n4", "n5", "n6"}
	opt.Initial = map[string]string{"n1": "V", "n2": "V", "n3": "V", "n4": "V", "n5": "V", "n6": "N"}
	opt.MaxAppend = 1 + int(seed%2)
	opt.Trailing = 2 + uint64(seed%2)
	opt.SnapThresh = 1000
	c := NewCluster(t, opt)
	c.Bootstrap()
	c.StartAll()
	A := c.WaitLeader(2 * time.Second)
	if A == "" || A == "n6" {
		return c
	}
	F := "n6"
	var rest []string
	for _, id := range []string{"n1", "n2", "n3", "n4", "n5"} {
		if id != A {
			rest = append(rest, id)
		}
	}
	B := rest[int(seed)%len(rest)]
	var maj []string // the three voters that move on
	for _, id := range rest {
		if id != B {
			maj = append(maj, id)
		}
	}
	c.Apply(A, 0)
	c.Settle("client")
	c.Drive(150*time.Millisecond, nil, nil)
	if c.Leader() != A {
		c.converge(500 * time.Millisecond)
		return c
	}
	// A, B, F on one side; A's next entries reach B (both) and F (the first only)
	for _, x := range []string{A, B, F} {
		for _, y := range maj {
			c.Net.SetBlocked(x, y, true)
		}
	}
	c.Tr.Emit("part", "", M{"op": "split", "blocked": c.blockedJSON()})
	base := c.byID[A].Raft.LastIndex()
	c.Apply(A, 0)
	c.Settle("client")
	c.Drive(40*time.Millisecond, func(r *Rpc) bool { return r.Src == A }, func() bool {
		return c.byID[B].Raft.LastIndex() > base && c.byID[F].Raft.LastIndex() > base
	})
	c.Apply(A, 0)
	c.Settle("client")
	c.Drive(40*time.Millisecond, func(r *Rpc) bool { return r.Src == A && r.Dst == B }, func() bool {
		return c.byID[B].Raft.LastIndex() > base+1
	})
	okShape := c.byID[B].Raft.LastIndex() == base+2 && c.byID[F].Raft.LastIndex() == base+1
	c.Crash(A)
	c.Settle("crash")
	c.dropPendingFrom(A)
	c.isolate(B)
	c.isolate(F)
	c.dropPendingFrom(B)
	c.dropPendingFrom(F)
	if !okShape {
		c.healAll()
		c.converge(500 * time.Millisecond)
		return c
	}
	// the majority elects a leader, commits, snapshots and compacts past base+2
	ok := c.Drive(4*time.Second, nil, func() bool {
		l := c.Leader()
		return l != "" && l != A && l != B
	})
	if !ok {
		c.healAll()
		c.converge(500 * time.Millisecond)
		return c
	}
	L2 := c.Leader()
	for i := 0; i < 6+int(seed%3); i++ {
		c.Apply(L2, 0)
		c.Settle("client")
		c.Drive(30*time.Millisecond, nil, nil)
	}
	for _, id := range maj {
		c.UserSnapshot(id)
		c.Settle("client")
	}
	c.Drive(200*time.Millisecond, nil, nil)
	// B comes back: it is caught up by InstallSnapshot and keeps what it holds below the snapshot
	for _, y := range maj {
		c.Net.SetBlocked(B, y, false)
	}
	c.Tr.Emit("part", "", M{"op": "uncut", "a": B, "blocked": c.blockedJSON()})
	c.Drive(3*time.Second, nil, func() bool {
		l := c.Leader()
		return l != "" && c.byID[B].Raft.AppliedIndex() >= c.byID[l].Raft.CommitIndex() && c.byID[l].Raft.CommitIndex() > base+4
	})
	// B takes over
	if l := c.Leader(); l != "" && l != B {
		c.Transfer(l, B)
		c.Settle("client")
		c.Drive(2*time.Second, nil, func() bool { return c.Leader() == B })
	}
	// F comes back and is served from B's log
	for _, y := range opt.Servers {
		if y != F && y != A {
			c.Net.SetBlocked(F, y, false)
		}
	}
	c.Tr.Emit("part", "", M{"op": "uncut", "a": F, "blocked": c.blockedJSON()})
	c.Drive(1500*time.Millisecond, nil, nil)
	c.healAll()
	c.converge(600 * time.Millisecond)
	return c
}

// famVoteRestart: a voter N grants its vote to X in term T, crashes and restarts while still in term T, and is then
// asked by Y (which never heard of term T's election) for a vote in the same term; the two quorums {X,N} and {Y,N}
// overlap only in N (C01, C06).
func famVoteRestart(t *testing.T, seed int64, steps int) *Cluster {
	opt := DefaultOptions(seed)
	opt.Family = "voterestart"
	c := NewCluster(t, opt)
	c.Bootstrap()
	c.StartAll()
	Y := c.WaitLeader(2 * time.Second)
	if Y == "" {
		return c
	}
	var others []string
	for _, id := range opt.Servers {
		if id != Y {
			others = append(others, id)
		}
	}
	X, N := others[int(seed)%2], others[1-int(seed)%2]
	c.Apply(Y, 0)
	c.Settle("client")
	c.Drive(100*time.Millisecond, nil, nil)
	if c.Leader() != Y {
		c.converge(500 * time.Millisecond)
		return c
	}
	T0 := c.byID[Y].Raft.CurrentTerm()
	// the old leader Y is cut off; X wins the next term with N's vote; nothing X sends as leader reaches N;
	// N's own campaign messages are held back so that X is the one that wins
	c.isolate(Y)
	c.dropPendingFrom(Y)
	ok := c.Drive(3*time.Second, func(r *Rpc) bool {
		if r.Src == N && (r.Kind == "pv" || r.Kind == "rv") {
			return false
		}
		return !(r.Src == X && (r.Kind == "ae" || r.Kind == "hb"))
	}, func() bool { return c.byID[X].Raft.State() == raft.Leader })
	T := c.byID[X].Raft.CurrentTerm()
	if !ok || T != T0+1 || c.byID[N].Raft.CurrentTerm() != T {
		c.healAll()
		c.converge(500 * time.Millisecond)
		return c
	}
	// N restarts in term T; then X is the one cut off, and Y talks to N
	c.Crash(N)
	c.Settle("crash")
	c.dropPendingFrom(N)
	c.dropPendingFrom(X)
	c.Start(N)
	c.Settle("restart")
	c.healAll()
	c.isolate(X)
	c.dropPendingFrom(X)
	c.Drive(2*time.Second, func(r *Rpc) bool {
		// only Y campaigns
		return !(r.Src == N && (r.Kind == "pv" || r.Kind == "rv"))
	}, func() bool { return c.byID[Y].Raft.State() == raft.Leader })
	c.Drive(100*time.Millisecond, nil, nil)
	c.healAll()
	c.converge(500 * time.Millisecond)
	return c
}

// famStaleRepl: a replication routine of a deposed leader wakes from a long back-off after the ex-leader has
// learned the new term, and sends one more AppendEntries built from its stale log to a follower that has already
// accepted (and the cluster committed) the new leader's entries at those indexes (C03, C01).
func famStaleRepl(t *testing.T, seed int64, steps int) *Cluster {
	opt := DefaultOptions(seed)
	opt.Family = "stalerepl"
	c := NewCluster(t, opt)
	c.Bootstrap()
	c.StartAll()
	L := c.WaitLeader(2 * time.Second)
	if L == "" {
		return c
	}
	var others []string
	for _, id := range opt.Servers {
		if id != L {
			others = append(others, id)
		}
	}
	F, C := others[int(seed)%2], others[1-int(seed)%2]
	c.Apply(L, 0)
	c.Settle("client")
	c.Drive(100*time.Millisecond, nil, nil)
	// L cannot reach F for a while: the replication routine for F backs off further and further
	c.Net.SetBlocked(L, F, true)
	c.Tr.Emit("part", "", M{"op": "cut", "a": L, "b": F, "blocked": c.blockedJSON()})
	c.Drive(time.Duration(1500+200*(seed%5))*time.Millisecond, nil, nil)
	if c.Leader() != L {
		c.healAll()
		c.converge(500 * time.Millisecond)
		return c
	}
	T := c.byID[L].Raft.CurrentTerm()
	base := c.byID[L].Raft.LastIndex()
	// L appends entries that reach nobody (its heartbeats keep its lease with C alive); the routine for F fails once
	// more and goes to sleep again, this time inside an attempt that covers the new entries
	for i := 0; i < 2; i++ {
		c.Apply(L, 0)
		c.Settle("client")
	}
	c.Drive(time.Duration(1400+100*(seed%4))*time.Millisecond, func(r *Rpc) bool {
		return !(r.Src == L && r.Dst == C && r.Kind == "ae" && len(r.Req.(*raft.AppendEntriesRequest).Entries) > 0)
	}, nil)
	if c.Leader() != L || c.byID[C].Raft.LastIndex() > base {
		c.healAll()
		c.converge(500 * time.Millisecond)
		return c
	}
	// the link works again, but nothing travels between L and F for now; L loses C as well
	c.Net.SetBlocked(L, F, false)
	c.Net.SetBlocked(L, C, true)
	c.Tr.Emit("part", "", M{"op": "cut", "a": L, "b": C, "blocked": c.blockedJSON()})
	c.dropPendingFrom(L)
	hold := func(r *Rpc) bool { return !((r.Src == L && r.Dst == F) || (r.Src == F && r.Dst == L)) }
	// C wins the next term with F's vote and commits at the same indexes
	okC := c.Drive(800*time.Millisecond, func(r *Rpc) bool { return hold(r) && !(r.Src == F && (r.Kind == "pv" || r.Kind == "rv")) },
		func() bool { return c.byID[C].Raft.State() == raft.Leader })
	if okC {
		for i := 0; i < 2; i++ {
			c.Apply(C, 0)
			c.Settle("client")
		}
		c.Drive(300*time.Millisecond, hold, func() bool { return c.byID[C].Raft.CommitIndex() >= base+3 && c.byID[F].Raft.LastIndex() >= base+3 })
		// one heartbeat of C tells L about the new term; C's entries do not reach L yet
		c.Net.SetBlocked(L, C, false)
		c.Tr.Emit("part", "", M{"op": "uncut", "a": L, "b": C, "blocked": c.blockedJSON()})
		c.Drive(300*time.Millisecond, func(r *Rpc) bool {
			return hold(r) && !(r.Src == C && r.Dst == L && r.Kind != "hb") && !(r.Src == L && (r.Kind == "pv" || r.Kind == "rv"))
		}, func() bool { return c.byID[L].Raft.CurrentTerm() > T })
		// whatever L still sends to F gets through now; L's own log stays as it is
		c.Drive(11*time.Second, func(r *Rpc) bool {
			if r.Src == C && r.Dst == L && r.Kind != "hb" {
				return false
			}
			if r.Src == L && (r.Kind == "pv" || r.Kind == "rv") {
				return false
			}
			return true
		}, func() bool {
			for _, r := range c.Net.Pending() {
				if r.Src == L && r.Dst == F && r.Kind == "ae" && r.Phase != phReq {
					return true
				}
			}
			return false
		})
		c.Drive(100*time.Millisecond, nil, nil)
	}
	c.healAll()
	c.converge(500 * time.Millisecond)
	return c
}

// famDemoteElect: the leader hands X its own demotion (uncommitted) and is lost; the other voters never saw the
// entry. X is a non-voter in its latest configuration and must not be elected, however long the others stay quiet.
func famDemoteElect(t *testing.T, seed int64, steps int) *Cluster {
	opt := DefaultOptions(seed)
	opt.Family = "demoteelect"
	opt.Servers = []string{"n1", "n2", "n3", "n4"}
	opt.Initial = map[string]string{"n1": "V", "n2": "V", "n3": "V", "n4": "V"}
	c := NewCluster(t, opt)
	c.Bootstrap()
	c.StartAll()
	A := c.WaitLeader(2 * time.Second)
	if A == "" {
		return c
	}
	var others []string
	for _, id := range opt.Servers {
		if id != A {
			others = append(others, id)
		}
	}
	X := others[int(seed)%3]
	c.Apply(A, 0)
	c.Settle("client")
	c.Drive(100*time.Millisecond, nil, nil)
	if c.Leader() != A {
		c.converge(500 * time.Millisecond)
		return c
	}
	cmd := []string{"demote", "remove"}[int(seed/3)%2]
	c.Member(A, cmd, X, 0, 0)
	c.Settle("client")
	// the configuration entry reaches X only
	c.Drive(60*time.Millisecond, func(r *Rpc) bool {
		return !(r.Src == A && r.Dst != X && r.Kind == "ae" && len(r.Req.(*raft.AppendEntriesRequest).Entries) > 0)
	}, func() bool { return c.byID[X].Raft.LastIndex() >= c.byID[A].Raft.LastIndex() })
	c.Crash(A)
	c.Settle("crash")
	c.dropPendingFrom(A)
	// the others stay quiet for a while: only X could campaign
	c.Drive(600*time.Millisecond, func(r *Rpc) bool { return r.Src == X || r.Phase != phReq || !(r.Kind == "pv" || r.Kind == "rv") }, nil)
	c.Drive(600*time.Millisecond, nil, nil)
	c.converge(600 * time.Millisecond)
	return c
}

// famBarrierRace: a Barrier issued while the leader's FSM goroutine is inside Apply of an earlier committed
// command (slow FSM), with nothing else queued: it may only succeed after that command has been applied (C08).
func famBarrierRace(t *testing.T, seed int64, steps int) *Cluster {
	opt := DefaultOptions(seed)
	opt.Family = "barrierrace"
	opt.BatchFSM = seed%3 == 1
	opt.BatchApplyCh = seed%2 == 1
	c := NewCluster(t, opt)
	c.Bootstrap()
	c.StartAll()
	L := c.WaitLeader(2 * time.Second)
	if L == "" {
		return c
	}
	for i := 0; i < 1+int(seed%3); i++ {
		c.Apply(L, 0)
		c.Settle("client")
	}
	c.Drive(100*time.Millisecond, nil, nil)
	if c.Leader() != L {
		c.converge(500 * time.Millisecond)
		return c
	}
	ln := c.byID[L]
	ln.FSM.SetGated(true)
	c.Apply(L, 0)
	c.Settle("client")
	c.Drive(200*time.Millisecond, nil, func() bool { return ln.FSM.Waiting() > 0 })
	// the command is committed and inside FSM.Apply; now the barrier
	for i := 0; i < 1+int(seed%2); i++ {
		c.Barrier(L, 0)
		c.Settle("client")
		c.Drive(80*time.Millisecond, nil, nil)
	}
	c.Drive(200*time.Millisecond, nil, nil)
	ln.FSM.SetGated(false)
	c.Settle("fsm")
	c.Drive(200*time.Millisecond, nil, nil)
	c.converge(400 * time.Millisecond)
	return c
}


// famTransferHang: a leadership transfer to a caught-up target whose TimeoutNow never comes back (frozen peer): the
// future must still be answered within about one election timeout (C17).
func famTransferHang(t *testing.T, seed int64, steps int) *Cluster {
	opt := DefaultOptions(seed)
	opt.Family = "transferhang"
	c := NewCluster(t, opt)
	c.Bootstrap()
	c.StartAll()
	L := c.WaitLeader(2 * time.Second)
	if L == "" {
		return c
	}
	c.Apply(L, 0)
	c.Settle("client")
	c.Drive(100*time.Millisecond, nil, nil)
	if c.Leader() != L {
		c.converge(500 * time.Millisecond)
		return c
	}
	var others []string
	for _, id := range opt.Servers {
		if id != L {
			others = append(others, id)
		}
	}
	T := others[int(seed)%len(others)]
	holdTN := func(r *Rpc) bool { return r.Kind != "tn" }
	var op *ClientOp
	if seed%2 == 0 {
		op = c.Transfer(L, T)
	} else {
		op = c.Transfer(L, "")
	}
	c.Settle("client")
	c.Drive(4*opt.Election, holdTN, nil)
	if op != nil {
		c.Tr.Emit("assertdone", L, M{"op": op.ID, "kind": "transfer", "bound_us": (4 * opt.Election).Microseconds()})
	}
	if seed%3 == 0 {
		// losing leadership releases it as well
		c.isolate(L)
		c.Drive(3*opt.Election, holdTN, nil)
		c.healAll()
	}
	c.Drive(200*time.Millisecond, nil, nil)
	c.converge(500 * time.Millisecond)
	return c
}

// famNotifyShort: a server gains leadership while nobody reads its NotifyCh and loses it at once (a peer with a
// higher term answers its first AppendEntries); the consumer comes back later: it must still see true, false (C18).
func famNotifyShort(t *testing.T, seed int64, steps int) *Cluster {
	opt := DefaultOptions(seed)
	opt.Family = "notifyshort"
	opt.NotifyBuf = int(seed % 2) // unbuffered, or one slot
	opt.PreVoteOff = true          // an isolated server runs ahead in term
	opt.HBFast = seed%4 >= 2       // a server blocked handing over a notification still takes heartbeats (fast path)
	c := NewCluster(t, opt)
	c.Bootstrap()
	c.StartAll()
	L0 := c.WaitLeader(2 * time.Second)
	if L0 == "" {
		return c
	}
	drain := func() {
		for _, n := range c.Nodes {
			for n.Up && c.ConsumeNotify(n.ID) {
				c.Settle("consume")
			}
		}
	}
	c.Drive(60*time.Millisecond, nil, nil)
	drain()
	var others []string
	for _, id := range opt.Servers {
		if id != L0 {
			others = append(others, id)
		}
	}
	F, G := others[int(seed/2)%2], others[1-int(seed/2)%2]
	// G is cut off and campaigns on its own: its term runs ahead
	c.isolate(G)
	c.Drive(6*opt.Election, nil, nil)
	drain()
	if c.Leader() != L0 {
		c.healAll()
		c.autoConsume = true
		c.converge(500 * time.Millisecond)
		return c
	}
	// leadership moves to F; nobody reads F's NotifyCh; G is back
	c.Transfer(L0, F)
	c.Settle("client")
	c.healAll()
	// (fast-path variant: only F's consumer is stalled; the others elect a successor whose heartbeats reach F
	// while F is still handing over its "true")
	c.Drive(8*opt.Election, nil, func() bool {
		if opt.HBFast {
			for _, n := range c.Nodes {
				for n.Up && n.ID != F && c.ConsumeNotify(n.ID) {
					c.Settle("consume")
				}
			}
		}
		return false
	})
	// the consumers come back
	for i := 0; i < 6; i++ {
		drain()
		c.Drive(30*time.Millisecond, nil, nil)
	}
	c.autoConsume = true
	c.converge(500 * time.Millisecond)
	return c
}

// famTransferStuck: the target T of an earlier leadership transfer campaigned on TimeoutNow without being heard (its
// term is ahead). T is cut off; a second transfer to T times out while its worker waits for T's replication routine,
// which sleeps in a back-off. When T is reachable again the routine learns T's higher term and goes away for good
// without serving the worker. The old leader later leads again: it must accept writes (C12), and no library
// goroutine may be left blocked for ever (C17).
func famTransferStuck(t *testing.T, seed int64, steps int) *Cluster {
	opt := DefaultOptions(seed)
	opt.Family = "transferstuck"
	c := NewCluster(t, opt)
	c.Bootstrap()
	c.StartAll()
	L := c.WaitLeader(2 * time.Second)
	if L == "" {
		return c
	}
	var others []string
	for _, id := range opt.Servers {
		if id != L {
			others = append(others, id)
		}
	}
	T := others[int(seed)%2]
	c.Apply(L, 0)
	c.Settle("client")
	c.Drive(100*time.Millisecond, nil, nil)
	if c.Leader() != L {
		c.converge(500 * time.Millisecond)
		return c
	}
	// first transfer: T gets TimeoutNow and campaigns, but nothing T sends is heard
	muteT := func(r *Rpc) bool { return r.Src != T }
	c.Transfer(L, T)
	c.Settle("client")
	c.Drive(3*opt.Election, muteT, nil)
	c.isolate(T)
	c.dropPendingFrom(T)
	if c.Leader() != L || c.byID[T].Raft.CurrentTerm() <= c.byID[L].Raft.CurrentTerm() {
		c.healAll()
		c.converge(500 * time.Millisecond)
		return c
	}
	// T is unreachable: its replication routine backs off; a write makes T lag
	c.Apply(L, 0)
	c.Settle("client")
	c.Drive(time.Duration(150+50*(seed%6))*time.Millisecond, nil, nil)
	// second transfer to T: times out
	c.Transfer(L, T)
	c.Settle("client")
	c.Drive(3*opt.Election, nil, nil)
	// T is back: the routine wakes, is told T's term and stops; L steps down
	c.healAll()
	c.Drive(1500*time.Millisecond, nil, nil)
	// L leads again
	for i := 0; i < 4 && c.Leader() != L; i++ {
		if x := c.Leader(); x != "" {
			c.Transfer(x, L)
			c.Settle("client")
		}
		c.Drive(8*opt.Election, nil, func() bool { return c.Leader() == L })
	}
	if c.Leader() == L {
		for i := 0; i < 2; i++ {
			c.Apply(L, 0)
			c.Settle("client")
			c.Drive(60*time.Millisecond, nil, nil)
		}
	}
	c.converge(500 * time.Millisecond)
	return c
}

// famFastPathRace: heartbeats are handled by the transport's own goroutine (SetHeartbeatHandler fast path), i.e.
// concurrently with a candidate's run loop. B campaigns in term T and holds C's granted vote in flight; C wins term
// T+1 with A's vote; C's heartbeat turns B into a follower of term T+1 from outside B's loop; then the old vote
// arrives. Nobody may lead a term it did not win (C01), and a follower names only a real leader (C18).
func famFastPathRace(t *testing.T, seed int64, steps int) *Cluster {
	opt := DefaultOptions(seed)
	opt.Family = "fastpathrace"
	opt.HBFast = true
	opt.PreVoteOff = seed%2 == 1
	c := NewCluster(t, opt)
	c.Bootstrap()
	c.StartAll()
	A := c.WaitLeader(2 * time.Second)
	if A == "" {
		return c
	}
	var others []string
	for _, id := range opt.Servers {
		if id != A {
			others = append(others, id)
		}
	}
	B, C := others[int(seed/2)%2], others[1-int(seed/2)%2]
	c.Apply(A, 0)
	c.Settle("client")
	c.Drive(100*time.Millisecond, nil, nil)
	if c.Leader() != A {
		c.converge(500 * time.Millisecond)
		return c
	}
	T0 := c.byID[A].Raft.CurrentTerm()
	// A is cut off until it gives up leadership; B campaigns first (C's own campaign messages are held back)
	c.isolate(A)
	c.dropPendingFrom(A)
	heldVote := func(r *Rpc) bool { // C's answer to B's RequestVote stays in flight
		return r.Src == B && r.Dst == C && r.Kind == "rv" && r.Phase != phReq
	}
	ok := c.Drive(2*time.Second, func(r *Rpc) bool {
		if r.Src == C && (r.Kind == "pv" || r.Kind == "rv") {
			return false
		}
		return !heldVote(r)
	}, func() bool {
		for _, r := range c.Net.Pending() {
			if heldVote(r) {
				return true
			}
		}
		return false
	})
	T := c.byID[B].Raft.CurrentTerm()
	if !ok || T <= T0 || c.byID[A].Raft.State() == raft.Leader {
		c.healAll()
		c.converge(500 * time.Millisecond)
		return c
	}
	// A is back; C campaigns and wins the next term with A's vote; nothing of it reaches B except heartbeats,
	// and B's own messages go nowhere
	c.healAll()
	c.dropPendingFrom(A)
	okC := c.Drive(3*time.Second, func(r *Rpc) bool {
		if heldVote(r) || r.Src == B {
			return false
		}
		if r.Src == A && (r.Kind == "pv" || r.Kind == "rv") {
			return false
		}
		if r.Dst == B && r.Kind != "hb" {
			return false
		}
		return true
	}, func() bool { return c.byID[C].Raft.State() == raft.Leader && c.byID[B].Raft.CurrentTerm() >= c.byID[C].Raft.CurrentTerm() })
	// now the old vote arrives at B
	if okC {
		c.Drive(60*time.Millisecond, func(r *Rpc) bool { return heldVote(r) }, nil)
	}
	c.Drive(200*time.Millisecond, nil, nil)
	c.converge(500 * time.Millisecond)
	return c
}

// famXferIsolated: the target of a leadership transfer is cut off right after it received TimeoutNow. The transfer
// entitles it to one election without pre-vote; after that it is an ordinary server without a quorum: its term must
// stay where it is however long it is isolated, and its return must not disturb the leader (C14).
func famXferIsolated(t *testing.T, seed int64, steps int) *Cluster {
	opt := DefaultOptions(seed)
	opt.Family = "xferisolated"
	if seed%2 == 1 {
		opt.Servers = []string{"n1", "n2", "n3", "n4", "n5"}
		opt.Initial = map[string]string{"n1": "V", "n2": "V", "n3": "V", "n4": "V", "n5": "V"}
	}
	c := NewCluster(t, opt)
	c.Bootstrap()
	c.StartAll()
	L := c.WaitLeader(2 * time.Second)
	if L == "" {
		return c
	}
	var others []string
	for _, id := range opt.Servers {
		if id != L {
			others = append(others, id)
		}
	}
	T := others[int(seed/2)%len(others)]
	c.Apply(L, 0)
	c.Settle("client")
	c.Drive(100*time.Millisecond, nil, nil)
	if c.Leader() != L {
		c.converge(500 * time.Millisecond)
		return c
	}
	// TimeoutNow reaches T; nothing T sends afterwards is heard, then T is cut off altogether
	c.Transfer(L, T)
	c.Settle("client")
	c.Drive(2*opt.Election, func(r *Rpc) bool { return r.Src != T }, nil)
	c.isolate(T)
	c.dropPendingFrom(T)
	c.Drive(time.Duration(6+seed%10)*opt.Election, nil, nil)
	c.healAll()
	c.Drive(300*time.Millisecond, nil, nil)
	c.converge(500 * time.Millisecond)
	return c
}

// famStalledLeader: the leader's main goroutine is stuck in a slow log-store write while it is cut off; the others
// elect a new leader; then only the direction old leader -> others works again, so that its replication routines
// are answered with the newer term before the main goroutine gets to step down. Nobody may be in leader state,
// accept writes or send as leader in a term it did not win (C01).
func famStalledLeader(t *testing.T, seed int64, steps int) *Cluster {
	opt := DefaultOptions(seed)
	opt.Family = "stalledleader"
	c := NewCluster(t, opt)
	c.Bootstrap()
	c.StartAll()
	L := c.WaitLeader(2 * time.Second)
	if L == "" {
		return c
	}
	c.Apply(L, 0)
	c.Settle("client")
	c.Drive(100*time.Millisecond, nil, nil)
	if c.Leader() != L {
		c.converge(500 * time.Millisecond)
		return c
	}
	ln := c.byID[L]
	// the next store write of L parks its main goroutine
	ln.inc.mu.Lock()
	ln.inc.parkAt = 1
	ln.inc.mu.Unlock()
	c.Apply(L, 0)
	c.Settle("client")
	c.Drive(20*time.Millisecond, nil, func() bool { return ln.inc.Parked() })
	c.isolate(L)
	c.dropPendingFrom(L)
	ok := c.Drive(3*time.Second, nil, func() bool { x := c.Leader(); return x != "" && x != L })
	if ok {
		if x := c.Leader(); x != "" && x != L {
			c.Apply(x, 0)
			c.Settle("client")
			c.Drive(60*time.Millisecond, nil, nil)
		}
		// L can reach the others again (its requests and their answers travel), nothing initiated by the others reaches L
		c.healAll()
		c.Drive(400*time.Millisecond, func(r *Rpc) bool { return r.Src == L }, nil)
		// more client calls arrive at L meanwhile
		for i := 0; i < 2; i++ {
			c.Apply(L, 0)
			c.Settle("client")
		}
		c.Drive(100*time.Millisecond, func(r *Rpc) bool { return r.Src == L }, nil)
	}
	if ln.inc.Parked() {
		ln.inc.Unpark()
		c.Settle("diskdone")
	}
	c.Drive(200*time.Millisecond, func(r *Rpc) bool { return r.Src == L }, nil)
	c.healAll()
	c.converge(500 * time.Millisecond)
	return c
}

// famRestoreBacklog: a restore request (user Restore on the leader; InstallSnapshot on a follower whose FSM is busy)
// arrives behind a backlog of committed batches in the FSM's queue: the FSM must be handed the backlog first and the
// snapshot afterwards (C02: increasing order, nothing repeated; a restore leaves exactly the snapshot's state).
func famRestoreBacklog(t *testing.T, seed int64, steps int) *Cluster {
	opt := DefaultOptions(seed)
	opt.Family = "restorebacklog"
	opt.BatchFSM = seed%2 == 0
	opt.MaxAppend = 1 + int(seed%3)
	opt.Trailing = 0
	c := NewCluster(t, opt)
	c.Bootstrap()
	c.StartAll()
	L := c.WaitLeader(2 * time.Second)
	if L == "" {
		return c
	}
	c.Apply(L, 0)
	c.Settle("client")
	c.Drive(100*time.Millisecond, nil, nil)
	if c.Leader() != L {
		c.converge(500 * time.Millisecond)
		return c
	}
	var others []string
	for _, id := range opt.Servers {
		if id != L {
			others = append(others, id)
		}
	}
	if seed%4 < 2 {
		// user Restore on the leader behind a backlog in the leader's FSM queue
		ln := c.byID[L]
		ln.FSM.SetGated(true)
		for i := 0; i < 3+int(seed%3); i++ {
			c.Apply(L, 0)
			c.Settle("client")
			c.Drive(25*time.Millisecond, nil, nil)
		}
		li := ln.Raft.LastIndex()
		c.UserRestore(L, []string{fmt.Sprintf("u%d.1", seed), fmt.Sprintf("u%d.2", seed)}, li+2, 1, 0)
		c.Settle("client")
		c.Drive(60*time.Millisecond, nil, nil)
		for i := 0; i < 10; i++ {
			ln.FSM.Release(1)
			c.Settle("fsm")
			c.Drive(15*time.Millisecond, nil, nil)
		}
		ln.FSM.SetGated(false)
		c.Settle("fsm")
	} else {
		// InstallSnapshot on a follower behind a backlog in that follower's FSM queue
		F := others[int(seed/4)%len(others)]
		fn := c.byID[F]
		fn.FSM.SetGated(true)
		for i := 0; i < 3; i++ {
			c.Apply(L, 0)
			c.Settle("client")
			c.Drive(25*time.Millisecond, nil, nil)
		}
		// F is cut off; the others move on, snapshot and compact; F comes back and needs the snapshot
		c.isolate(F)
		for i := 0; i < 4; i++ {
			c.Apply(L, 0)
			c.Settle("client")
			c.Drive(20*time.Millisecond, nil, nil)
		}
		for _, id := range opt.Servers {
			if id != F {
				c.UserSnapshot(id)
				c.Settle("client")
			}
		}
		c.Drive(150*time.Millisecond, nil, nil)
		c.healAll()
		c.Drive(300*time.Millisecond, nil, nil)
		for i := 0; i < 10; i++ {
			fn.FSM.Release(1)
			c.Settle("fsm")
			c.Drive(15*time.Millisecond, nil, nil)
		}
		fn.FSM.SetGated(false)
		c.Settle("fsm")
	}
	c.Drive(300*time.Millisecond, nil, nil)
	c.converge(600 * time.Millisecond)
	return c
}


// famCTCrash: RestoreCommittedLogs on a commit-tracking store that persists a staged commit index at once. A follower
// holds a never-committed suffix of a deposed leader; the new leader's first conflicting AppendEntries arrives with
// a commit index covering those indexes, and the follower crashes between two store operations of that handler.
// After the restart only committed entries may be replayed into the FSM (C10, C02).
func famCTCrash(t *testing.T, seed int64, steps int) *Cluster {
	opt := DefaultOptions(seed)
	opt.Family = "ctcrash"
	opt.Servers = []string{"n1", "n2", "n3", "n4", "n5"}
	opt.Initial = map[string]string{"n1": "V", "n2": "V", "n3": "V", "n4": "V", "n5": "V"}
	opt.CommitTrack = true
	opt.CTEager = seed%4 != 3
	opt.MaxAppend = 2 + int(seed%3)
	c := NewCluster(t, opt)
	c.Bootstrap()
	c.StartAll()
	A := c.WaitLeader(2 * time.Second)
	if A == "" {
		return c
	}
	var others []string
	for _, id := range opt.Servers {
		if id != A {
			others = append(others, id)
		}
	}
	F := others[int(seed)%len(others)]
	c.Apply(A, 0)
	c.Settle("client")
	c.Drive(120*time.Millisecond, nil, nil)
	if c.Leader() != A {
		c.converge(500 * time.Millisecond)
		return c
	}
	base := c.byID[A].Raft.LastIndex()
	// A's next entries reach F only (2 of 5 voters: never committed)
	for _, x := range others {
		if x != F {
			c.Net.SetBlocked(A, x, true)
			c.Net.SetBlocked(F, x, true)
		}
	}
	c.Tr.Emit("part", "", M{"op": "split", "blocked": c.blockedJSON()})
	for i := 0; i < 2+int(seed%2); i++ {
		c.Apply(A, 0)
		c.Settle("client")
	}
	c.Drive(40*time.Millisecond, func(r *Rpc) bool { return r.Src == A }, func() bool { return c.byID[F].Raft.LastIndex() >= base+2 })
	c.Crash(A)
	c.Settle("crash")
	c.dropPendingFrom(A)
	c.isolate(F)
	c.dropPendingFrom(F)
	// the other three elect a leader and commit at the same indexes
	ok := c.Drive(4*time.Second, nil, func() bool { x := c.Leader(); return x != "" && x != A && x != F })
	if !ok {
		c.healAll()
		c.converge(500 * time.Millisecond)
		return c
	}
	N := c.Leader()
	for i := 0; i < 3; i++ {
		c.Apply(N, 0)
		c.Settle("client")
		c.Drive(30*time.Millisecond, nil, nil)
	}
	// F is back; it crashes before the k-th store write of whatever it handles next
	fn := c.byID[F]
	fn.inc.mu.Lock()
	fn.inc.crashAt = 1 + int(seed/4)%3
	fn.inc.mu.Unlock()
	c.healAll()
	c.Drive(400*time.Millisecond, nil, func() bool { return !fn.Up || fn.inc.crashedAtGate })
	if fn.inc.crashedAtGate && fn.Up {
		c.Crash(F)
		c.Settle("crash")
	}
	if !fn.Up {
		c.Start(F)
		c.Settle("restart")
	}
	c.Drive(300*time.Millisecond, nil, nil)
	c.converge(600 * time.Millisecond)
	return c
}

// famAPIBound: on a running, connected cluster every public call is answered within a bound (C17), whatever was the
// last thing that happened before it (a membership change, a snapshot, a restore, a transfer, nothing) and with no
// later traffic to help it along. Each round: a prelude, a quiet period, a few calls on the leader and on a follower,
// a bounded wait with a healthy network, and the assertion that every call has returned.
func famAPIBound(t *testing.T, seed int64, steps int) *Cluster {
	opt := DefaultOptions(seed)
	opt.Family = "apibound"
	opt.Servers = []string{"n1", "n2", "n3", "n4"}
	opt.Initial = map[string]string{"n1": "V", "n2": "V", "n3": "V"}
	opt.CfgStoreFSM = seed%3 == 0
	opt.BatchFSM = seed%4 == 1
	opt.BatchApplyCh = seed%5 == 2
	opt.Mono = seed%2 == 1
	opt.Trailing = uint64(seed % 3)
	c := NewCluster(t, opt)
	c.Bootstrap()
	c.StartAll()
	if seed%6 != 5 { // (seed%6 == 5: the server that joins is not running)
		c.Start("n4")
		c.Settle("restart")
	}
	if c.WaitLeader(2*time.Second) == "" {
		return c
	}
	rng := rand.New(rand.NewSource(seed*7919 + 11))
	bound := 10 * opt.Election
	for i := 0; i < 2; i++ {
		c.Apply(c.Leader(), 0)
		c.Settle("client")
	}
	c.Drive(100*time.Millisecond, nil, nil)
	n4 := "" // n4's suffrage: "", "N", "V"
	for round := 0; round < 5; round++ {
		L := c.Leader()
		if L == "" {
			if L = c.WaitLeader(2 * time.Second); L == "" {
				break
			}
		}
		var followers []string
		for _, id := range []string{"n1", "n2", "n3"} {
			if id != L {
				followers = append(followers, id)
			}
		}
		F := followers[rng.Intn(len(followers))]
		// prelude
		var pre *ClientOp
		cfgPre := false
		switch rng.Intn(6) {
		case 0:
			pre = c.Apply(L, 0)
		case 1, 2: // a membership change, and nothing after it
			cfgPre = true
			switch n4 {
			case "":
				if rng.Intn(2) == 0 {
					pre, n4 = c.Member(L, "addnonvoter", "n4", 0, 0), "N"
				} else {
					pre, n4 = c.Member(L, "addvoter", "n4", 0, 0), "V"
				}
			case "N":
				pre, n4 = c.Member(L, "addvoter", "n4", 0, 0), "V"
			default:
				if rng.Intn(2) == 0 {
					pre, n4 = c.Member(L, "demote", "n4", 0, 0), "N"
				} else {
					pre, n4 = c.Member(L, "remove", "n4", 0, 0), ""
				}
			}
		case 3:
			pre = c.UserSnapshot(L)
		case 4:
			last := c.byID[L].Raft.LastIndex()
			pre = c.UserRestore(L, []string{fmt.Sprintf("u%d.%d", seed, round)}, last+uint64(rng.Intn(3)), 1, 0)
		default:
		}
		c.Settle("client")
		c.Drive(bound, nil, func() bool { return pre == nil || pre.Done })
		c.Drive(60*time.Millisecond, nil, nil)
		if pre != nil {
			c.Tr.Emit("assertdone", pre.Node, M{"op": pre.ID, "kind": pre.Kind, "bound_us": (bound + 60*time.Millisecond).Microseconds()})
		}
		if c.Leader() != L {
			continue
		}
		// the calls
		var ops []*ClientOp
		for k := 0; k < 3; k++ {
			var op *ClientOp
			pick := rng.Intn(9)
			if k == 0 && cfgPre && rng.Intn(2) == 0 {
				pick = 0
			}
			switch pick {
			case 0:
				op = c.UserSnapshot(L)
			case 1:
				op = c.UserSnapshot(F)
			case 2:
				op = c.Barrier(L, 0)
			case 3:
				op = c.Verify(L)
			case 4:
				op = c.Apply(F, 0)
			case 5:
				op = c.Verify(F)
			case 6:
				op = c.Member(F, "addnonvoter", "n4", 0, 0)
			case 7:
				op = c.Barrier(F, 0)
			default:
				op = c.UserSnapshot(L)
			}
			c.Settle("client")
			if op != nil {
				ops = append(ops, op)
			}
		}
		c.Drive(bound, nil, func() bool {
			for _, op := range ops {
				if !op.Done {
					return false
				}
			}
			return true
		})
		for _, op := range ops {
			c.Tr.Emit("assertdone", op.Node, M{"op": op.ID, "kind": op.Kind, "bound_us": bound.Microseconds()})
		}
	}
	c.converge(500 * time.Millisecond)
	return c
}

// famLeaseAdd: a voter is added whose answers the lease quorum needs at once (1 -> 2 voters; 3 -> 4 with one voter
// unreachable). Its first responses arrive a little less than one LeaderLeaseTimeout after the change, later ones
// promptly: the majority never stopped responding, so the lease check must not depose the leader (C13).
func famLeaseAdd(t *testing.T, seed int64, steps int) *Cluster {
	opt := DefaultOptions(seed)
	opt.Family = "leaseadd"
	single := seed%2 == 0
	if single {
		opt.Servers = []string{"n1", "n2"}
		opt.Initial = map[string]string{"n1": "V"}
	} else {
		opt.Servers = []string{"n1", "n2", "n3", "n4"}
		opt.Initial = map[string]string{"n1": "V", "n2": "V", "n3": "V"}
	}
	opt.HBFast = seed%4 >= 2
	c := NewCluster(t, opt)
	c.Bootstrap()
	c.StartAll()
	L := c.WaitLeader(2 * time.Second)
	if L == "" {
		return c
	}
	c.Apply(L, 0)
	c.Settle("client")
	c.RunQuiet(time.Duration(40+seed%30)*time.Millisecond, 2*time.Millisecond)
	if c.Leader() != L {
		c.converge(500 * time.Millisecond)
		return c
	}
	N := "n2"
	if !single {
		N = "n4"
		var others []string
		for _, id := range []string{"n1", "n2", "n3"} {
			if id != L {
				others = append(others, id)
			}
		}
		down := others[int(seed/2)%2]
		c.Net.SetBlocked(L, down, true)
		c.Tr.Emit("part", "", M{"op": "cut", "a": L, "blocked": c.blockedJSON()})
		c.RunQuiet(10*time.Millisecond, 2*time.Millisecond)
	}
	c.Start(N)
	c.Settle("restart")
	term0 := c.byID[L].Raft.CurrentTerm()
	if seed%3 == 0 {
		// first as a non-voter that is caught up, then promoted
		c.Member(L, "addnonvoter", N, 0, 0)
		c.Settle("client")
		c.RunQuiet(40*time.Millisecond, 2*time.Millisecond)
	}
	op := c.Member(L, "addvoter", N, 0, 0)
	c.Settle("client")
	// N's traffic is slow for a little less than one lease timeout
	notN := func(r *Rpc) bool { return r.Src != N && r.Dst != N }
	hold := opt.Lease - time.Duration(1+seed%5)*time.Millisecond
	end := time.Now().Add(hold)
	for time.Now().Before(end) {
		c.Drive(0, notN, nil)
		c.Tick(time.Millisecond)
	}
	end = time.Now().Add(4 * opt.Lease)
	for time.Now().Before(end) {
		c.DeliverAll(300)
		c.Tick(time.Duration(1+c.Rng.Intn(3)) * time.Millisecond)
	}
	c.Tr.Emit("assertleader", L, M{"term": term0})
	if op != nil {
		c.Tr.Emit("assertdone", L, M{"op": op.ID, "kind": op.Kind, "bound_us": (5 * opt.Lease).Microseconds()})
	}
	c.Net.HealAll()
	c.Tr.Emit("part", "", M{"op": "heal", "blocked": c.blockedJSON()})
	c.converge(600 * time.Millisecond)
	return c
}

// exchange delivers the oldest parked request of the given kind from src to dst and then its response.
func (c *Cluster) exchange(kind, src, dst string) bool {
	for _, r := range c.Net.Pending() {
		if r.Kind == kind && r.Src == src && r.Dst == dst && r.Phase == phReq {
			c.Net.Deliver(r)
			c.Settle("deliver")
			c.Net.Reply(r)
			c.Settle("net")
			return true
		}
	}
	return false
}

// famVerifyWide: four or five voters; the leader L reaches a single follower X, so L and X together are NOT a
// majority and no VerifyLeader call may succeed (C09), however X's answers are interleaved: a replication response
// and a heartbeat response of X for the same verification, in either order, several verifications at once,
// duplicated responses. (The lease is long enough that L is still leader while the calls are judged.)
func famVerifyWide(t *testing.T, seed int64, steps int) *Cluster {
	opt := DefaultOptions(seed)
	opt.Family = "verifywide"
	if seed%2 == 0 {
		opt.Servers = []string{"n1", "n2", "n3", "n4", "n5"}
		opt.Initial = map[string]string{"n1": "V", "n2": "V", "n3": "V", "n4": "V", "n5": "V"}
	} else {
		opt.Servers = []string{"n1", "n2", "n3", "n4", "n5"}
		opt.Initial = map[string]string{"n1": "V", "n2": "V", "n3": "V", "n4": "V", "n5": "N"}
	}
	opt.Lease = opt.Heartbeat
	c := NewCluster(t, opt)
	c.Bootstrap()
	c.StartAll()
	L := c.WaitLeader(2 * time.Second)
	if L == "" {
		return c
	}
	c.Apply(L, 0)
	c.Settle("client")
	c.Drive(100*time.Millisecond, nil, nil)
	if c.Leader() != L {
		c.converge(500 * time.Millisecond)
		return c
	}
	var voters []string
	for id, s := range opt.Initial {
		if s == "V" && id != L {
			voters = append(voters, id)
		}
	}
	sort.Strings(voters)
	X := voters[int(seed/2)%len(voters)]
	for _, v := range voters {
		if v != X {
			c.Net.SetBlocked(L, v, true)
		}
	}
	c.Tr.Emit("part", "", M{"op": "cutvoters", "a": L, "blocked": c.blockedJSON()})
	c.dropPendingFrom(L)
	// a write: its AppendEntries to X is in flight
	c.Apply(L, 0)
	c.Settle("client")
	var ops []*ClientOp
	for i := 0; i < 1+int(seed%3); i++ {
		ops = append(ops, c.Verify(L))
		c.Settle("client")
	}
	// X's answers, in an order chosen by the seed
	order := [][]string{{"ae", "hb"}, {"hb", "ae"}, {"ae", "hb", "ae", "hb"}, {"hb", "hb", "ae"}}[int(seed/3)%4]
	for _, k := range order {
		c.exchange(k, L, X)
	}
	for i := 0; i < 6; i++ {
		for _, r := range c.Net.Pending() {
			if r.Src == L && r.Dst == X && r.Phase == phReq {
				c.exchange(r.Kind, L, X)
			}
		}
		c.Tick(2 * time.Millisecond)
	}
	// L loses its lease eventually: every verification has been refused by then
	c.Drive(4*opt.Lease, nil, nil)
	for _, op := range ops {
		if op != nil {
			c.Tr.Emit("assertdone", L, M{"op": op.ID, "kind": "verify", "bound_us": (4 * opt.Lease).Microseconds()})
		}
	}
	c.healAll()
	c.converge(600 * time.Millisecond)
	return c
}

// famFastPathTerm: the heartbeat fast path against a candidate whose term write is slow. A's traffic to B is late,
// B becomes a candidate and starts persisting term T+1; while that write is in progress a heartbeat of A (term T) is
// handled on B's transport goroutine and names A as B's leader; then the write completes. B must not advertise A as
// the leader of term T+1, which A never led (C18), and nobody acts as leader of a term it did not win (C01).
func famFastPathTerm(t *testing.T, seed int64, steps int) *Cluster {
	opt := DefaultOptions(seed)
	opt.Family = "fastpathterm"
	opt.HBFast = true
	opt.PreVoteOff = true
	c := NewCluster(t, opt)
	c.Bootstrap()
	c.StartAll()
	A := c.WaitLeader(2 * time.Second)
	if A == "" {
		return c
	}
	var others []string
	for _, id := range opt.Servers {
		if id != A {
			others = append(others, id)
		}
	}
	B := others[int(seed)%2]
	for i := 0; i < 1+int(seed%3); i++ {
		c.Apply(A, 0)
		c.Settle("client")
	}
	c.Drive(100*time.Millisecond, nil, nil)
	if c.Leader() != A {
		c.converge(500 * time.Millisecond)
		return c
	}
	bn := c.byID[B]
	bn.inc.mu.Lock()
	bn.inc.parkAt = 1 + int(seed/2)%3 // the term, the candidate or the vote's term (PersistVote writes candidate first)
	bn.inc.mu.Unlock()
	lateAB := func(r *Rpc) bool { return !(r.Src == A && r.Dst == B) }
	parked := c.Drive(6*opt.Election, lateAB, func() bool { return bn.inc.Parked() })
	if parked {
		// A's late heartbeats arrive now, then the disk write completes
		for i := 0; i < 1+int(seed/6)%2; i++ {
			c.exchange("hb", A, B)
		}
		bn.inc.Unpark()
		c.Settle("diskdone")
	}
	c.Drive(20*time.Millisecond, lateAB, nil)
	c.Drive(200*time.Millisecond, nil, nil)
	c.converge(500 * time.Millisecond)
	return c
}

// famFastPathUp: like fastpathterm, but the heartbeat that arrives while B's term write (T+1) is in progress comes
// from the leader of a HIGHER term (T+2): five servers, A is cut off, C wins T+1 and hands leadership to D (T+2)
// while B's main goroutine is still parked in the store. B's reported and persisted term must never decrease (C06).
func famFastPathUp(t *testing.T, seed int64, steps int) *Cluster {
	opt := DefaultOptions(seed)
	opt.Family = "fastpathup"
	opt.Servers = []string{"n1", "n2", "n3", "n4", "n5"}
	opt.Initial = map[string]string{"n1": "V", "n2": "V", "n3": "V", "n4": "V", "n5": "V"}
	opt.HBFast = true
	opt.PreVoteOff = true
	c := NewCluster(t, opt)
	c.Bootstrap()
	c.StartAll()
	A := c.WaitLeader(2 * time.Second)
	if A == "" {
		return c
	}
	var others []string
	for _, id := range opt.Servers {
		if id != A {
			others = append(others, id)
		}
	}
	B := others[int(seed)%4]
	c.Apply(A, 0)
	c.Settle("client")
	c.Drive(100*time.Millisecond, nil, nil)
	if c.Leader() != A {
		c.converge(500 * time.Millisecond)
		return c
	}
	T := c.byID[A].Raft.CurrentTerm()
	bn := c.byID[B]
	bn.inc.mu.Lock()
	bn.inc.parkAt = 1
	bn.inc.mu.Unlock()
	lateAB := func(r *Rpc) bool { return !(r.Src == A && r.Dst == B) }
	if !c.Drive(6*opt.Election, lateAB, func() bool { return bn.inc.Parked() }) {
		c.converge(500 * time.Millisecond)
		return c
	}
	// A is gone; the other three elect among themselves (B's requests are lost, nothing but heartbeats reaches B)
	c.isolate(A)
	c.dropPendingFrom(A)
	rest := func(r *Rpc) bool {
		if r.Src == B || (r.Dst == B && r.Kind != "hb") {
			return false
		}
		return true
	}
	noB := func(r *Rpc) bool { return r.Src != B && r.Dst != B }
	ok := c.Drive(3*time.Second, noB, func() bool { x := c.Leader(); return x != "" && x != A && x != B })
	if ok && seed%3 != 2 {
		// one more term: leadership is handed on
		X := c.Leader()
		for _, id := range others {
			if id != B && id != X {
				c.Transfer(X, id)
				break
			}
		}
		c.Settle("client")
		c.Drive(3*time.Second, noB, func() bool {
			x := c.Leader()
			return x != "" && x != X && x != A && x != B && c.byID[x].Raft.CurrentTerm() >= T+2
		})
	}
	// the new leader's heartbeats reach B (fast path); then B's disk write completes
	c.Drive(60*time.Millisecond, rest, nil)
	if bn.inc.Parked() {
		bn.inc.Unpark()
		c.Settle("diskdone")
	}
	c.Drive(40*time.Millisecond, rest, nil)
	c.healAll()
	c.Drive(200*time.Millisecond, nil, nil)
	c.converge(500 * time.Millisecond)
	return c
}

// famMixedBatch (C08, BatchingFSM): what one FSM batch can hold on a leader.
//  (1) A new leader's first commit hands the FSM one batch that mixes entries WITHOUT a future (the previous leader's
//      commands, not known to be committed when it crashed) with entries WITH a future (its own callers'): every
//      caller must get the response of its own entry.
//  (2) An Apply and a Barrier issued back to back are dispatched, committed and batched together; the FSM is slow:
//      the Barrier returns only after the command ahead of it in the same batch has been applied.
func famMixedBatch(t *testing.T, seed int64, steps int) *Cluster {
	opt := DefaultOptions(seed)
	opt.Family = "mixedbatch"
	opt.BatchFSM = true
	opt.BatchApplyCh = seed%2 == 0
	opt.MaxAppend = 4 + int(seed%3)
	c := NewCluster(t, opt)
	c.Bootstrap()
	c.StartAll()
	A := c.WaitLeader(2 * time.Second)
	if A == "" {
		return c
	}
	c.Apply(A, 0)
	c.Settle("client")
	c.Drive(100*time.Millisecond, nil, nil)
	if c.Leader() != A {
		c.converge(500 * time.Millisecond)
		return c
	}
	// (1) A's next commands reach the followers, the commit index does not (responses to A are held); A crashes
	for i := 0; i < 1+int(seed%3); i++ {
		c.Apply(A, 0)
		c.Settle("client")
	}
	noAnswersToA := func(r *Rpc) bool { return !(r.Src == A && r.Phase != phReq) }
	c.Drive(30*time.Millisecond, noAnswersToA, nil)
	c.Crash(A)
	c.Settle("crash")
	ok := c.Drive(3*time.Second, nil, func() bool { x := c.Leader(); return x != "" && x != A })
	if !ok {
		c.converge(500 * time.Millisecond)
		return c
	}
	B := c.Leader()
	// B's callers arrive before its no-op has committed; the answers to B's first AppendEntries (carrying the no-op)
	// are lost, so the retry carries everything and one acknowledgement commits A's commands, the no-op and the new
	// commands in one step
	for i := 0; i < 1+int(seed/3)%3; i++ {
		c.Apply(B, 0)
		c.Settle("client")
	}
	for _, r := range c.Net.Pending() {
		if r.Src == B && r.Kind == "ae" && r.Phase == phReq {
			c.Net.Deliver(r)
			c.Settle("deliver")
		}
	}
	for _, r := range c.Net.Pending() {
		if r.Src == B && r.Kind == "ae" && r.Phase != phReq {
			c.Net.FailAfter(r)
			c.Settle("loseresp")
		}
	}
	c.Drive(200*time.Millisecond, nil, nil)
	// (2) Apply + Barrier in one batch, slow FSM
	if c.Leader() == B {
		bn := c.byID[B]
		bn.FSM.SetGated(true)
		// the leader's main goroutine is busy storing a first command while the next calls queue up behind it:
		// they are taken off the queue together (group commit), replicated and committed together
		bn.inc.mu.Lock()
		bn.inc.parkAt = 1
		bn.inc.mu.Unlock()
		c.Apply(B, 0)
		c.Settle("client")
		for i := 0; i < 1+int(seed%2); i++ {
			c.Apply(B, 0)
			c.Settle("client")
		}
		c.Barrier(B, 0)
		c.Settle("client")
		if bn.inc.Parked() {
			bn.inc.Unpark()
			c.Settle("diskdone")
		}
		c.Drive(150*time.Millisecond, nil, nil)
		bn.FSM.SetGated(false)
		c.Settle("fsm")
		c.Drive(200*time.Millisecond, nil, nil)
	}
	c.Start(A)
	c.Settle("restart")
	c.converge(500 * time.Millisecond)
	return c
}

// famXferNonVoter (C07): a leadership transfer aimed at a server that is not a voter in its own latest configuration.
// The leader does not look at the target's suffrage, so TimeoutNow makes the non-voter campaign; it must never count
// itself and never be elected. Variant 0: one voter + one caught-up non-voter. Variant 1: three voters, the demotion
// of C is appended by the leader and replicated to C only (B still believes C votes), then the transfer to C.
func famXferNonVoter(t *testing.T, seed int64, steps int) *Cluster {
	opt := DefaultOptions(seed)
	opt.Family = "xfernonvoter"
	two := seed%2 == 0
	if two {
		opt.Servers = []string{"n1", "n2"}
		opt.Initial = map[string]string{"n1": "V", "n2": "N"}
	}
	opt.PreVoteOff = seed%4 >= 2
	c := NewCluster(t, opt)
	c.Bootstrap()
	c.StartAll()
	A := c.WaitLeader(2 * time.Second)
	if A == "" {
		return c
	}
	for i := 0; i < 1+int(seed%3); i++ {
		c.Apply(A, 0)
		c.Settle("client")
	}
	c.Drive(100*time.Millisecond, nil, nil)
	if c.Leader() != A {
		c.converge(500 * time.Millisecond)
		return c
	}
	var target string
	var allow func(r *Rpc) bool
	if two {
		target = "n2"
	} else {
		var others []string
		for _, id := range opt.Servers {
			if id != A {
				others = append(others, id)
			}
		}
		B, C := others[int(seed/2)%2], others[1-int(seed/2)%2]
		target = C
		// nothing from A reaches B any more: B does not learn of the demotion
		allow = func(r *Rpc) bool { return !(r.Src == A && r.Dst == B) }
		c.Member(A, "demote", C, 0, 0)
		c.Settle("client")
		c.Drive(30*time.Millisecond, allow, nil)
	}
	op := c.Transfer(A, target)
	c.Settle("client")
	c.Drive(6*opt.Election, allow, nil)
	if op != nil {
		c.Tr.Emit("assertdone", A, M{"op": op.ID, "kind": "transfer", "bound_us": (6 * opt.Election).Microseconds()})
	}
	c.Drive(200*time.Millisecond, nil, nil)
	c.converge(500 * time.Millisecond)
	return c
}

// famCfgTruncElect (C12, C07): the isolated leader A appends "remove X" (never committed); Y wins the next term and
// its no-op takes that index; A rejoins and the configuration entry is the first conflicting entry it truncates. Then
// Y is lost for good: A and X are a majority of the real configuration and must elect a leader and accept writes --
// which they do only if A went back to the committed configuration when it dropped the entry.
func famCfgTruncElect(t *testing.T, seed int64, steps int) *Cluster {
	opt := DefaultOptions(seed)
	opt.Family = "cfgtruncelect"
	opt.KeepMinorityDown = true
	opt.PreVoteOff = seed%3 == 2
	c := NewCluster(t, opt)
	c.Bootstrap()
	c.StartAll()
	A := c.WaitLeader(2 * time.Second)
	if A == "" {
		return c
	}
	var others []string
	for _, id := range opt.Servers {
		if id != A {
			others = append(others, id)
		}
	}
	X, Y := others[int(seed)%2], others[1-int(seed)%2]
	for i := 0; i < int(seed%3); i++ {
		c.Apply(A, 0)
		c.Settle("client")
	}
	c.RunQuiet(60*time.Millisecond, 5*time.Millisecond)
	if c.Leader() != A {
		c.converge(500 * time.Millisecond)
		return c
	}
	c.isolate(A)
	cmd := []string{"remove", "demote"}[int(seed/2)%2]
	c.Member(A, cmd, X, 0, 0)
	c.Settle("client")
	c.dropPendingFrom(A)
	// Y wins (X's own campaign messages are held back); its no-op takes the index of A's configuration entry
	c.Drive(4*time.Second, func(r *Rpc) bool { return !(r.Src == X && (r.Kind == "pv" || r.Kind == "rv")) }, func() bool {
		return c.Leader() == Y && c.byID[Y].Raft.CommitIndex() >= c.byID[Y].Raft.LastIndex()
	})
	c.healAll()
	c.Drive(400*time.Millisecond, nil, nil)
	if seed%4 == 3 {
		c.Apply(c.Leader(), 0)
		c.Settle("client")
		c.Drive(100*time.Millisecond, nil, nil)
	}
	// Y is lost; A and X remain
	if c.byID[Y].Up {
		c.Crash(Y)
		c.Settle("crash")
	}
	c.Drive(8*opt.Election, nil, nil)
	c.converge(600 * time.Millisecond)
	return c
}

// famSnapVote (C02, C03, C06): a voter C whose log store ends BEFORE its snapshot (TrailingLogs 0, snapshot at the
// head of the log, then a restart so that nothing but the stores remembers the last index) is asked for its vote by a
// candidate B that missed committed entries, while the third voter is gone. C's position is the later of its log and
// its snapshot: it must refuse B; C itself wins and brings B up to date.
func famSnapVote(t *testing.T, seed int64, steps int) *Cluster {
	opt := DefaultOptions(seed)
	opt.Family = "snapvote"
	opt.Trailing = 0
	opt.SnapThresh = 1000
	opt.Mono = seed%2 == 1
	opt.PreVoteOff = seed%3 == 2
	opt.KeepMinorityDown = true
	c := NewCluster(t, opt)
	c.Bootstrap()
	c.StartAll()
	A := c.WaitLeader(2 * time.Second)
	if A == "" {
		return c
	}
	var others []string
	for _, id := range opt.Servers {
		if id != A {
			others = append(others, id)
		}
	}
	B, C := others[int(seed)%2], others[1-int(seed)%2]
	for i := 0; i < 2+int(seed%3); i++ {
		c.Apply(A, 0)
		c.Settle("client")
	}
	c.Drive(100*time.Millisecond, nil, nil)
	if c.Leader() != A {
		c.converge(500 * time.Millisecond)
		return c
	}
	c.isolate(B)
	for i := 0; i < 3+int(seed/2)%3; i++ {
		c.Apply(A, 0)
		c.Settle("client")
	}
	c.Drive(100*time.Millisecond, nil, nil)
	sop := c.UserSnapshot(C)
	c.Settle("client")
	c.Drive(200*time.Millisecond, nil, func() bool { return sop != nil && sop.Done })
	c.Drive(40*time.Millisecond, nil, nil)
	c.Crash(C)
	c.Settle("crash")
	c.Crash(A)
	c.Settle("crash")
	c.Start(C)
	c.Settle("restart")
	c.healAll()
	// B and C are a majority; A stays down
	c.Drive(10*opt.Election, nil, nil)
	if l := c.Leader(); l != "" {
		for i := 0; i < 2; i++ {
			c.Apply(l, 0)
			c.Settle("client")
		}
		c.Drive(200*time.Millisecond, nil, nil)
	}
	c.converge(600 * time.Millisecond)
	return c
}
