package sim

import (
	"bytes"
	"errors"
	"fmt"
	"strings"
	"testing/synctest"
	"time"

	"github.com/hashicorp/raft"
)

// ---------------------------------------------------------------- client operations

func errClass(err error) string {
	switch {
	case err == nil:
		return ""
	case errors.Is(err, raft.ErrNotLeader):
		return "NotLeader"
	case errors.Is(err, raft.ErrLeadershipLost):
		return "LeadershipLost"
	case errors.Is(err, raft.ErrRaftShutdown):
		return "Shutdown"
	case errors.Is(err, raft.ErrEnqueueTimeout):
		return "EnqueueTimeout"
	case errors.Is(err, raft.ErrLeadershipTransferInProgress):
		return "TransferInProgress"
	case errors.Is(err, raft.ErrAbortedByRestore):
		return "AbortedByRestore"
	case errors.Is(err, raft.ErrCantBootstrap):
		return "CantBootstrap"
	}
	s := err.Error()
	switch {
	case strings.Contains(s, "configuration changed since"):
		return "StalePrevIndex"
	case strings.Contains(s, "leadership transfer timeout"):
		return "TransferTimeout"
	case strings.Contains(s, "cannot find peer"), strings.Contains(s, "cannot find replication state"):
		return "TransferNoPeer"
	case strings.Contains(s, "cannot restore snapshot now"):
		return "RestoreRefused"
	case strings.Contains(s, "nothing new to snapshot"):
		return "NothingNew"
	case strings.Contains(s, "cannot take snapshot now"):
		return "SnapshotRefused"
	case strings.Contains(s, "need at least one voter"):
		return "NoVoter"
	}
	return "Other:" + s
}

func (c *Cluster) newOp(kind, node, arg string) *ClientOp {
	c.mu.Lock()
	c.nextOp++
	op := &ClientOp{ID: c.nextOp, Kind: kind, Node: node, Arg: arg, inc: c.byID[node].inc}
	c.ops = append(c.ops, op)
	c.mu.Unlock()
	return op
}

func (c *Cluster) opDone(op *ClientOp, err error, index uint64, resp string, extra M) {
	c.mu.Lock()
	op.Done = true
	op.Err = errClass(err)
	op.Index = index
	op.Resp = resp
	c.mu.Unlock()
	if op.inc != nil {
		// the caller of a crashed server hears nothing: whatever the zombie incarnation says is dropped.
		// (a graceful Shutdown is different: its answers are real)
		op.inc.mu.Lock()
		zombie := op.inc.dead && !op.inc.graceful
		op.inc.mu.Unlock()
		if zombie {
			c.Tr.Emit("lost", op.Node, M{"op": op.ID, "kind": op.Kind})
			return
		}
	}
	kv := M{"op": op.ID, "kind": op.Kind, "arg": op.Arg, "err": op.Err, "idx": index, "resp": resp}
	for k, v := range extra {
		kv[k] = v
	}
	c.Tr.Emit("return", op.Node, kv)
}

func (c *Cluster) setFut(op *ClientOp, f raft.Future) {
	c.mu.Lock()
	op.fut = f
	c.mu.Unlock()
}

// ResolveStranded records every operation that is still unresolved as stranded and
// force-resolves its future so that the waiting goroutine can exit.
func (c *Cluster) ResolveStranded() int {
	c.mu.Lock()
	var st []*ClientOp
	for _, o := range c.ops {
		if !o.Done {
			st = append(st, o)
		}
	}
	c.mu.Unlock()
	for _, o := range st {
		up := c.byID[o.Node].Up
		zombie := false
		if o.inc != nil {
			o.inc.mu.Lock()
			zombie = o.inc.dead && !o.inc.graceful
			o.inc.mu.Unlock()
		}
		if !zombie && !o.reported { // the caller of a crashed process is gone with it
			c.Tr.Emit("stranded", o.Node, M{"op": o.ID, "kind": o.Kind, "arg": o.Arg, "inapi": o.fut == nil, "nodeup": up})
		}
		if o.fut != nil {
			raft.VerifForceRespond(o.fut, errors.New("sim: stranded future force-resolved"))
		}
	}
	synctest.Wait()
	return len(st)
}

// PendingOps counts unresolved client operations.
func (c *Cluster) PendingOps() int {
	c.mu.Lock()
	defer c.mu.Unlock()
	k := 0
	for _, o := range c.ops {
		if !o.Done {
			k++
		}
	}
	return k
}

// Apply issues raft.Apply with a unique payload on node id.
func (c *Cluster) Apply(id string, timeout time.Duration) *ClientOp {
	n := c.byID[id]
	if n.Raft == nil {
		return nil
	}
	c.mu.Lock()
	c.nextPayload++
	p := fmt.Sprintf("c%d", c.nextPayload)
	c.mu.Unlock()
	op := c.newOp("apply", id, p)
	r := n.Raft
	c.Tr.Emit("invoke", id, M{"op": op.ID, "kind": "apply", "arg": p, "inc": n.incN, "timeout_us": int64(timeout / time.Microsecond), "nodeup": n.Up})
	go func() {
		f := r.Apply([]byte(p), timeout)
		c.setFut(op, f)
		err := f.Error()
		resp := ""
		var idx uint64
		if err == nil {
			idx = f.Index()
			if s, ok := f.Response().(string); ok {
				resp = s
			}
		}
		c.opDone(op, err, idx, resp, nil)
	}()
	return op
}

func (c *Cluster) Barrier(id string, timeout time.Duration) *ClientOp {
	n := c.byID[id]
	if n.Raft == nil {
		return nil
	}
	op := c.newOp("barrier", id, "")
	r := n.Raft
	fsm := n.FSM
	c.Tr.Emit("invoke", id, M{"op": op.ID, "kind": "barrier", "inc": n.incN, "nodeup": n.Up})
	go func() {
		f := r.Barrier(timeout)
		c.setFut(op, f)
		err := f.Error()
		var idx uint64
		if err == nil {
			if ixf, ok := f.(raft.IndexFuture); ok {
				idx = ixf.Index()
			}
		}
		c.opDone(op, err, idx, "", M{"fsmn": len(fsm.Content())})
	}()
	return op
}

func (c *Cluster) Verify(id string) *ClientOp {
	n := c.byID[id]
	if n.Raft == nil {
		return nil
	}
	op := c.newOp("verify", id, "")
	r := n.Raft
	c.Tr.Emit("invoke", id, M{"op": op.ID, "kind": "verify", "inc": n.incN, "term": r.CurrentTerm(), "nodeup": n.Up})
	go func() {
		f := r.VerifyLeader()
		c.setFut(op, f)
		c.opDone(op, f.Error(), 0, "", nil)
	}()
	return op
}

// Member issues a membership change: cmd in addvoter addnonvoter demote remove.
func (c *Cluster) Member(id, cmd, target string, prev uint64, timeout time.Duration) *ClientOp {
	n := c.byID[id]
	if n.Raft == nil {
		return nil
	}
	op := c.newOp(cmd, id, target)
	r := n.Raft
	c.Tr.Emit("invoke", id, M{"op": op.ID, "kind": cmd, "arg": target, "prev": prev, "inc": n.incN, "nodeup": n.Up})
	go func() {
		var f raft.IndexFuture
		switch cmd {
		case "addvoter":
			f = r.AddVoter(raft.ServerID(target), raft.ServerAddress(target), prev, timeout)
		case "addnonvoter":
			f = r.AddNonvoter(raft.ServerID(target), raft.ServerAddress(target), prev, timeout)
		case "demote":
			f = r.DemoteVoter(raft.ServerID(target), prev, timeout)
		case "remove":
			f = r.RemoveServer(raft.ServerID(target), prev, timeout)
		}
		c.setFut(op, f)
		err := f.Error()
		var idx uint64
		if err == nil {
			idx = f.Index()
		}
		c.opDone(op, err, idx, "", nil)
	}()
	return op
}

func (c *Cluster) Transfer(id, target string) *ClientOp {
	n := c.byID[id]
	if n.Raft == nil {
		return nil
	}
	op := c.newOp("transfer", id, target)
	r := n.Raft
	c.Tr.Emit("invoke", id, M{"op": op.ID, "kind": "transfer", "arg": target, "inc": n.incN, "nodeup": n.Up})
	go func() {
		var f raft.Future
		if target == "" {
			f = r.LeadershipTransfer()
		} else {
			f = r.LeadershipTransferToServer(raft.ServerID(target), raft.ServerAddress(target))
		}
		c.setFut(op, f)
		c.opDone(op, f.Error(), 0, "", nil)
	}()
	return op
}

func (c *Cluster) UserSnapshot(id string) *ClientOp {
	n := c.byID[id]
	if n.Raft == nil {
		return nil
	}
	op := c.newOp("snapshot", id, "")
	r := n.Raft
	c.Tr.Emit("invoke", id, M{"op": op.ID, "kind": "snapshot", "inc": n.incN, "nodeup": n.Up})
	go func() {
		f := r.Snapshot()
		c.setFut(op, f)
		c.opDone(op, f.Error(), 0, "", nil)
	}()
	return op
}

// UserRestore calls Raft.Restore with an external snapshot whose content is ids.
func (c *Cluster) UserRestore(id string, ids []string, index, term uint64, timeout time.Duration) *ClientOp {
	n := c.byID[id]
	if n.Raft == nil {
		return nil
	}
	op := c.newOp("restore", id, strings.Join(ids, ","))
	r := n.Raft
	data := encodeContent(ids)
	c.Tr.Emit("invoke", id, M{"op": op.ID, "kind": "restore", "content": strs(ids), "sidx": index, "sterm": term, "inc": n.incN, "last": r.LastIndex()})
	go func() {
		meta := &raft.SnapshotMeta{Version: 1, ID: "user", Index: index, Term: term, Size: int64(len(data))}
		err := r.Restore(meta, &userReader{c: c, n: n, r: bytes.NewReader(data)}, timeout)
		c.opDone(op, err, 0, "", nil)
	}()
	return op
}

// userReader marks its node while Raft.Restore streams the caller's snapshot into a sink,
// so that the snapshot-close event can be attributed to the user restore.
type userReader struct {
	c *Cluster
	n *Node
	r *bytes.Reader
}

func (u *userReader) Read(p []byte) (int, error) {
	u.c.mu.Lock()
	u.n.userRestoreActive = true
	u.c.mu.Unlock()
	return u.r.Read(p)
}

// ConsumeNotify reads one value from the node's NotifyCh if there is one.
func (c *Cluster) ConsumeNotify(id string) bool {
	n := c.byID[id]
	if n.Notify == nil {
		return false
	}
	select {
	case v := <-n.Notify:
		c.Tr.Emit("notify", id, M{"val": v, "inc": n.incN})
		return true
	default:
		return false
	}
}

// Quiesce declares the cluster at rest: drains notifications, reads LeaderCh, dumps FSM contents.
func (c *Cluster) Quiesce(expectConv bool) {
	c.DeliverAll(500)
	for _, n := range c.Nodes {
		if n.Up {
			for c.ConsumeNotify(n.ID) {
				c.Settle("consume")
			}
		}
	}
	// every call made on a server that is still running must have resolved by now
	c.mu.Lock()
	var late []*ClientOp
	for _, o := range c.ops {
		if !o.Done && !o.reported {
			late = append(late, o)
		}
	}
	c.mu.Unlock()
	for _, o := range late {
		n := c.byID[o.Node]
		if n.Up && o.inc == n.inc && expectConv {
			o.reported = true
			c.Tr.Emit("stranded", o.Node, M{"op": o.ID, "kind": o.Kind, "arg": o.Arg, "inapi": o.fut == nil, "nodeup": true})
		}
	}
	fsm := M{}
	lch := M{}
	for _, n := range c.Nodes {
		if !n.Up {
			continue
		}
		fsm[n.ID] = strs(n.FSM.Content())
		v := ""
		select {
		case b := <-n.Raft.LeaderCh():
			if b {
				v = "true"
			} else {
				v = "false"
			}
		default:
		}
		lch[n.ID] = v
	}
	c.Tr.Emit("quiesce", "", M{"expectconv": expectConv, "fsm": fsm, "leaderch": lch, "notifydrained": c.Opt.NotifyBuf >= 0,
		"expectstable": c.Opt.ExpectStable})
}

// ---------------------------------------------------------------- scheduler primitives

// Tick advances virtual time by d.
func (c *Cluster) Tick(d time.Duration) {
	c.Tr.Emit("tick", "", M{"d_us": int64(d / time.Microsecond)})
	time.Sleep(d)
	c.Settle("tick")
}

// Leader returns the id of a running node that believes it is leader (highest term), or "".
func (c *Cluster) Leader() string {
	best := ""
	var bt uint64
	for _, n := range c.Nodes {
		if n.Up && n.Raft.State() == raft.Leader {
			if t := n.Raft.CurrentTerm(); best == "" || t > bt {
				best, bt = n.ID, t
			}
		}
	}
	return best
}

func (c *Cluster) UpNodes() []string {
	var out []string
	for _, n := range c.Nodes {
		if n.Up {
			out = append(out, n.ID)
		}
	}
	return out
}

// DeliverAll delivers and replies everything pending, repeatedly, without advancing time,
// up to max actions. Returns the number of actions taken.
func (c *Cluster) DeliverAll(max int) int {
	k := 0
	for k < max {
		if c.autoConsume {
			for _, n := range c.Nodes {
				if n.Up {
					for c.ConsumeNotify(n.ID) {
						c.Settle("consume")
					}
				}
			}
		}
		p := c.Net.Pending()
		if len(p) == 0 {
			break
		}
		for _, r := range p {
			if r.Phase == phReq {
				c.Net.Deliver(r)
				c.Settle("deliver")
			} else {
				if r.Phase == phHandled {
					c.Net.Reply(r)
				}
				c.Settle("net")
			}
			k++
			if k >= max {
				break
			}
		}
	}
	return k
}

// RunQuiet ticks and delivers promptly for the given virtual duration (a healthy network).
func (c *Cluster) RunQuiet(d time.Duration, step time.Duration) {
	end := time.Now().Add(d)
	for time.Now().Before(end) {
		c.DeliverAll(200)
		c.Tick(step)
	}
	c.DeliverAll(200)
}

// WaitLeader runs a healthy network until some node is leader (or the budget ends).
func (c *Cluster) WaitLeader(budget time.Duration) string {
	end := time.Now().Add(budget)
	for time.Now().Before(end) {
		c.DeliverAll(200)
		if l := c.Leader(); l != "" {
			return l
		}
		c.Tick(5 * time.Millisecond)
	}
	return c.Leader()
}

// ---------------------------------------------------------------- random scheduler

// Weights drive the random scheduler; 0 disables an action.
type Weights struct {
	Deliver, Reply, Drop, LoseResp, Dup int
	Tick                                int
	TickMax                             time.Duration
	Apply, Barrier, Verify              int
	Member, Transfer                    int
	UserSnap, UserRestore               int
	Crash, CrashAtWrite, FailWrite      int
	Restart                             int
	Partition, Heal                     int
	Shutdown                            int
	FsmGate, FsmRelease                 int
	SlowWrite, ReleaseWrite             int
	Consume                             int
	OpOnDown                            int
	DupIS                               int // re-deliver an old InstallSnapshot (late duplicate)
	Split                               int // random bipartition of the servers
	MaxCrashes, MaxOps, MaxMember       int
	MaxDown                             int
}

type sched struct {
	c        *Cluster
	w        Weights
	crashes  int
	opsN     int
	memberN  int
	restores int
}

// RandomRun executes n scheduler steps drawn from w.
func (c *Cluster) RandomRun(w Weights, n int) {
	s := &sched{c: c, w: w}
	for i := 0; i < n; i++ {
		s.step()
	}
}

func (s *sched) step() {
	c := s.c
	w := s.w
	rng := c.Rng
	pend := c.Net.Pending()
	var reqs, handled []*Rpc
	for _, r := range pend {
		if r.Phase == phReq {
			reqs = append(reqs, r)
		} else {
			handled = append(handled, r)
		}
	}
	up := c.UpNodes()
	var down []string
	for _, n := range c.Nodes {
		if !n.Up && n.everStarted {
			down = append(down, n.ID)
		}
	}
	type act struct {
		w int
		f func()
	}
	var acts []act
	add := func(wt int, f func()) {
		if wt > 0 {
			acts = append(acts, act{wt, f})
		}
	}
	if len(reqs) > 0 {
		add(w.Deliver, func() { c.Net.Deliver(reqs[rng.Intn(len(reqs))]); c.Settle("deliver") })
		add(w.Drop, func() { c.Net.FailBefore(reqs[rng.Intn(len(reqs))]); c.Settle("drop") })
	}
	if len(handled) > 0 {
		add(w.Reply, func() { c.Net.Reply(handled[rng.Intn(len(handled))]); c.Settle("reply") })
		add(w.LoseResp, func() { c.Net.FailAfter(handled[rng.Intn(len(handled))]); c.Settle("loseresp") })
	}
	add(w.DupIS, func() {
		if d := c.Net.DuplicateKind("is", rng.Intn(1<<20)); d != nil {
			c.Settle("dup")
		}
	})
	add(w.Split, func() {
		c.Net.HealAll()
		side := map[string]bool{}
		for _, id := range c.Opt.Servers {
			side[id] = rng.Intn(2) == 0
		}
		for _, a := range c.Opt.Servers {
			for _, b := range c.Opt.Servers {
				if a < b && side[a] != side[b] {
					c.Net.SetBlocked(a, b, true)
				}
			}
		}
		c.Tr.Emit("part", "", M{"op": "split", "blocked": c.blockedJSON()})
	})
	add(w.Dup, func() {
		if d := c.Net.Duplicate(rng.Intn(1 << 20)); d != nil {
			c.Settle("dup")
		}
	})
	add(w.Tick, func() {
		mx := int64(w.TickMax / time.Millisecond)
		if mx < 1 {
			mx = 1
		}
		c.Tick(time.Duration(1+rng.Int63n(mx)) * time.Millisecond)
	})
	if len(up) > 0 && (w.MaxOps == 0 || s.opsN < w.MaxOps) {
		pick := func() string {
			// mostly the leader, sometimes anybody
			if l := c.Leader(); l != "" && rng.Intn(4) != 0 {
				return l
			}
			return up[rng.Intn(len(up))]
		}
		tmo := func() time.Duration {
			if rng.Intn(3) == 0 {
				return 0
			}
			return time.Duration(5+rng.Intn(30)) * time.Millisecond
		}
		add(w.Apply, func() { s.opsN++; c.Apply(pick(), tmo()); c.Settle("client") })
		add(w.Barrier, func() { s.opsN++; c.Barrier(pick(), tmo()); c.Settle("client") })
		add(w.Verify, func() { s.opsN++; c.Verify(pick()); c.Settle("client") })
		add(w.UserSnap, func() { s.opsN++; c.UserSnapshot(up[rng.Intn(len(up))]); c.Settle("client") })
		add(w.Transfer, func() {
			s.opsN++
			t := ""
			if rng.Intn(2) == 0 {
				t = c.Opt.Servers[rng.Intn(len(c.Opt.Servers))]
			}
			c.Transfer(pick(), t)
			c.Settle("client")
		})
		if w.MaxMember == 0 || s.memberN < w.MaxMember {
			add(w.Member, func() {
				s.memberN++
				cmds := []string{"addvoter", "addnonvoter", "demote", "remove"}
				cmd := cmds[rng.Intn(len(cmds))]
				tgt := c.Opt.Servers[rng.Intn(len(c.Opt.Servers))]
				c.Member(pick(), cmd, tgt, 0, tmo())
				// a newly added server needs to run
				if (cmd == "addvoter" || cmd == "addnonvoter") && !c.byID[tgt].Up && !c.byID[tgt].everStarted {
					c.Start(tgt)
				}
				c.Settle("client")
			})
		}
		if s.restores < 2 {
			add(w.UserRestore, func() {
				s.restores++
				l := pick()
				li := c.byID[l].Raft.LastIndex()
				var idx uint64
				switch rng.Intn(3) {
				case 0:
					idx = 1
				case 1:
					idx = li
				default:
					idx = li + 3
				}
				c.UserRestore(l, []string{fmt.Sprintf("u%d.1", s.restores), fmt.Sprintf("u%d.2", s.restores)}, idx, 1, tmo())
				c.Settle("client")
			})
		}
	}
	maxDown := w.MaxDown
	if maxDown == 0 {
		maxDown = len(c.Nodes)
	}
	if len(up) > 0 && s.crashes < w.MaxCrashes && len(down) < maxDown {
		add(w.Crash, func() { s.crashes++; c.Crash(up[rng.Intn(len(up))]); c.Settle("crash") })
		add(w.CrashAtWrite, func() {
			s.crashes++
			n := c.byID[up[rng.Intn(len(up))]]
			n.inc.mu.Lock()
			n.inc.crashAt = 1 + rng.Intn(4)
			n.inc.mu.Unlock()
		})
		add(w.Shutdown, func() { s.crashes++; c.Shutdown(up[rng.Intn(len(up))]); c.Settle("shutdown") })
	}
	if len(up) > 0 {
		add(w.FailWrite, func() {
			n := c.byID[up[rng.Intn(len(up))]]
			n.inc.mu.Lock()
			n.inc.failAt = 1 + rng.Intn(3)
			n.inc.mu.Unlock()
		})
		add(w.SlowWrite, func() {
			n := c.byID[up[rng.Intn(len(up))]]
			n.inc.mu.Lock()
			if n.inc.parkCh == nil {
				n.inc.parkAt = 1 + rng.Intn(4)
			}
			n.inc.mu.Unlock()
		})
		var parked []*Node
		for _, id := range up {
			if c.byID[id].inc.Parked() {
				parked = append(parked, c.byID[id])
			}
		}
		if len(parked) > 0 {
			add(w.ReleaseWrite, func() { parked[rng.Intn(len(parked))].inc.Unpark(); c.Settle("diskdone") })
		}
		add(w.FsmGate, func() { c.byID[up[rng.Intn(len(up))]].FSM.SetGated(true) })
		add(w.FsmRelease, func() {
			n := c.byID[up[rng.Intn(len(up))]]
			if rng.Intn(3) == 0 {
				n.FSM.SetGated(false)
			} else {
				n.FSM.Release(1 + rng.Intn(3))
			}
			c.Settle("fsm")
		})
	}
	if len(up) > 0 {
		add(w.Consume, func() {
			if c.ConsumeNotify(up[rng.Intn(len(up))]) {
				c.Settle("consume")
			}
		})
	}
	var shut []string
	for _, n := range c.Nodes {
		if !n.Up && n.everStarted && n.graceful {
			shut = append(shut, n.ID)
		}
	}
	if len(shut) > 0 {
		add(w.OpOnDown, func() {
			id := shut[rng.Intn(len(shut))]
			switch rng.Intn(5) {
			case 0:
				c.Apply(id, 0)
			case 1:
				c.Barrier(id, 5*time.Millisecond)
			case 2:
				c.Verify(id)
			case 3:
				c.Member(id, "addnonvoter", "n9", 0, 0)
			default:
				c.UserSnapshot(id)
			}
			c.Settle("client")
		})
	}
	if len(down) > 0 {
		add(w.Restart, func() { c.Start(down[rng.Intn(len(down))]); c.Settle("restart") })
	}
	add(w.Partition, func() {
		a := c.Opt.Servers[rng.Intn(len(c.Opt.Servers))]
		if rng.Intn(2) == 0 {
			// isolate a completely
			for _, b := range c.Opt.Servers {
				if b != a {
					c.Net.SetBlocked(a, b, true)
				}
			}
			c.Tr.Emit("part", "", M{"op": "isolate", "a": a, "blocked": c.blockedJSON()})
		} else {
			b := c.Opt.Servers[rng.Intn(len(c.Opt.Servers))]
			if a != b {
				c.Net.SetBlocked(a, b, true)
				c.Tr.Emit("part", "", M{"op": "cut", "a": a, "b": b, "blocked": c.blockedJSON()})
			}
		}
	})
	add(w.Heal, func() {
		c.Net.HealAll()
		c.Tr.Emit("part", "", M{"op": "heal", "blocked": c.blockedJSON()})
	})
	tot := 0
	for _, a := range acts {
		tot += a.w
	}
	if tot == 0 {
		c.Tick(time.Millisecond)
		return
	}
	x := rng.Intn(tot)
	for _, a := range acts {
		if x < a.w {
			a.f()
			return
		}
		x -= a.w
	}
}

func (c *Cluster) blockedJSON() []any {
	c.Net.mu.Lock()
	defer c.Net.mu.Unlock()
	out := []any{}
	for _, a := range c.Opt.Servers {
		for _, b := range c.Opt.Servers {
			if a < b && c.Net.blocked[[2]string{a, b}] {
				out = append(out, []string{a, b})
			}
		}
	}
	return out
}

// StopFaults heals the network, restarts everybody, releases gates.
func (c *Cluster) StopFaults() {
	c.Net.HealAll()
	c.Tr.Emit("part", "", M{"op": "heal", "blocked": c.blockedJSON()})
	for _, n := range c.Nodes {
		if n.Up {
			n.FSM.SetGated(false)
			n.inc.mu.Lock()
			n.inc.crashAt, n.inc.failAt = 0, 0
			n.inc.mu.Unlock()
			n.inc.Unpark()
		}
	}
	c.autoConsume = true // from now on the application reads its NotifyCh promptly
	c.Tr.Emit("faultsstopped", "", nil)
	c.Settle("stopfaults")
}

var _ = synctest.Wait
